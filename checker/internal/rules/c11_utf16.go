package rules

import (
	"fmt"
	"math"
	"sort"
	"strings"

	"verif/checker/internal/core"
	"verif/checker/internal/ctx"
)

// evalJSNum evaluates an arithmetic JavaScript expression (literals, identifiers
// bound in env, + - * / %, unary -, Math.floor/Math.trunc) — used only to compare
// constant maps at the corner points of their domain.
func evalJSNum(n *ctx.JSNode, env map[string]float64) (float64, bool) {
	if n == nil {
		return 0, false
	}
	if v, ok := n.NumValue(); ok {
		return v, true
	}
	switch {
	case n.Is("Identifier"):
		v, ok := env[n.IdentName()]
		return v, ok
	case n.Is("ParenthesizedExpression"):
		return evalJSNum(n.N("expression"), env)
	case n.Is("UnaryExpression"):
		a, ok := evalJSNum(n.N("argument"), env)
		if !ok {
			return 0, false
		}
		switch n.S("operator") {
		case "-":
			return -a, true
		case "+":
			return a, true
		}
	case n.Is("BinaryExpression"):
		a, ok1 := evalJSNum(n.N("left"), env)
		b, ok2 := evalJSNum(n.N("right"), env)
		if !ok1 || !ok2 {
			return 0, false
		}
		switch n.S("operator") {
		case "+":
			return a + b, true
		case "-":
			return a - b, true
		case "*":
			return a * b, true
		case "/":
			return a / b, true
		case "%":
			return math.Mod(a, b), true
		}
	case n.Is("CallExpression"):
		cal := n.N("callee")
		args := n.L("arguments")
		if cal.Is("MemberExpression") && cal.N("object").IdentName() == "Math" && len(args) == 1 {
			a, ok := evalJSNum(args[0], env)
			if !ok {
				return 0, false
			}
			switch cal.MemberName() {
			case "floor":
				return math.Floor(a), true
			case "trunc":
				return math.Trunc(a), true
			}
		}
	}
	return 0, false
}

// utf16Boundaries are the only places at which a comparison against a constant in
// the surrogate region may split the code-unit space: start of the high
// surrogates, start of the low surrogates, first unit after them, first
// supplementary code point, first value beyond Unicode.
var utf16Boundaries = map[float64]string{0xD800: "first high surrogate", 0xDC00: "first low surrogate", 0xE000: "first unit after the surrogates", 0x10000: "first supplementary code point", 0x110000: "first value beyond Unicode"}

// comparisonSplit returns the smallest integer on the upper side of `x op lit` / `lit op x`.
func comparisonSplit(n *ctx.JSNode) (split float64, ok bool) {
	if !n.Is("BinaryExpression") {
		return 0, false
	}
	op := n.S("operator")
	l, lok := n.N("left").NumValue()
	rv, rok := n.N("right").NumValue()
	switch {
	case rok && !lok: // x op L
		switch op {
		case "<", ">=":
			return rv, true
		case "<=", ">":
			return rv + 1, true
		}
	case lok && !rok: // L op x
		switch op {
		case "<=", ">":
			return l, true
		case "<", ">=":
			return l + 1, true
		}
	}
	return 0, false
}

func ruleC11UTF16(c *ctx.Ctx, r *core.Reporter) {
	r.Begin("C11.utf16", "F-CLASS", "the UTF-8⇄UTF-16 transcoding of strings crossing the Go/JavaScript border: every comparison against a constant in the surrogate region splits exactly at a class boundary, the surrogate-pair composition and decomposition maps are mutually inverse on the corner points of the supplementary range, and a consumed pair advances the index by two", 8)
	if !needPrelude(c, r) {
		return
	}
	arms := map[string]*ctx.JSNode{}
	for _, fnName := range []string{"$externalize", "$internalize"} {
		fn := c.PreludeFunc(fnName)
		if fn == nil {
			r.Undecided("arm:"+fnName, "compiler/prelude/jsmapping.js", fnName+" not found")
			continue
		}
		arm := kindSwitchArms(fn, "t")["$kindString"]
		if arm == nil {
			r.Undecided("arm:"+fnName, fn.Pos(), "no $kindString arm in "+fnName)
			continue
		}
		arms[fnName] = arm
		n := 0
		arm.Walk(func(x *ctx.JSNode) bool {
			split, ok := comparisonSplit(x)
			if !ok {
				return true
			}
			lit := split
			if lit < 0xD000 || lit > 0x110001 {
				return true
			}
			n++
			what, good := utf16Boundaries[split]
			if !good {
				what = "NOT a UTF-16 class boundary: those are 0xD800, 0xDC00, 0xE000, 0x10000, 0x110000"
			}
			r.Check(good, "boundary:"+fnName+":"+squash(x.Src()), x.Pos(), fmt.Sprintf("`%s` separates the values below 0x%X from those at or above it (%s)", x.Src(), int(split), what))
			return true
		})
		r.Check(n >= 1, "boundary:"+fnName+":present", arm.Pos(), fmt.Sprintf("%s classifies code units by comparison with surrogate-region constants (%d comparisons)", fnName, n))
	}
	ext, in := arms["$externalize"], arms["$internalize"]
	if ext == nil || in == nil {
		return
	}
	// decomposition: the two arguments of String.fromCharCode(h, l) in $externalize
	decl := func(arm *ctx.JSNode, name string) *ctx.JSNode {
		var out *ctx.JSNode
		arm.Walk(func(x *ctx.JSNode) bool {
			if x.Is("VariableDeclarator") && x.N("id").IdentName() == name && x.N("init") != nil && out == nil {
				out = x.N("init")
			}
			return true
		})
		return out
	}
	var hInit, lInit *ctx.JSNode
	var cpVar string
	ext.Walk(func(x *ctx.JSNode) bool {
		if x.Is("CallExpression") && squash(x.N("callee").Src()) == "String.fromCharCode" && len(x.L("arguments")) == 2 {
			hInit, lInit = decl(ext, x.L("arguments")[0].IdentName()), decl(ext, x.L("arguments")[1].IdentName())
		}
		return true
	})
	if hInit != nil {
		ids := freeIdentNames(hInit)
		if len(ids) == 1 {
			cpVar = ids[0]
		}
	}
	// composition: the argument of $encodeRune(c) in $internalize whose initialiser mentions two code-unit variables
	var cInit *ctx.JSNode
	var hVar, lVar string
	in.Walk(func(x *ctx.JSNode) bool {
		if x.Is("CallExpression") && x.N("callee").IdentName() == "$encodeRune" && len(x.L("arguments")) == 1 {
			if init := decl(in, x.L("arguments")[0].IdentName()); init != nil && init.Is("BinaryExpression") {
				ids := freeIdentNames(init)
				if len(ids) == 2 {
					cInit = init
					// the high unit is the one read at the plain index, the low unit the one read at index+1
					for _, id := range ids {
						if d := decl(in, id); d != nil && d.Is("CallExpression") && len(d.L("arguments")) == 1 {
							if d.L("arguments")[0].Is("Identifier") {
								hVar = id
							} else {
								lVar = id
							}
						}
					}
				}
			}
		}
		return true
	})
	if hInit == nil || lInit == nil || cInit == nil || cpVar == "" || hVar == "" || lVar == "" {
		r.Undecided("pair:maps", ext.Pos(), fmt.Sprintf("could not identify the surrogate-pair maps (h=%v l=%v c=%v cp=%q hVar=%q lVar=%q)", hInit != nil, lInit != nil, cInit != nil, cpVar, hVar, lVar))
		return
	}
	var bad []string
	corners := []float64{0x10000, 0x10001, 0x103FF, 0x10400, 0x1F600, 0xFFFFF, 0x100000, 0x10FC00, 0x10FFFF}
	for _, cp := range corners {
		h, ok1 := evalJSNum(hInit, map[string]float64{cpVar: cp})
		l, ok2 := evalJSNum(lInit, map[string]float64{cpVar: cp})
		if !ok1 || !ok2 {
			r.Undecided("pair:maps", hInit.Pos(), "decomposition is not an arithmetic expression of the code point")
			return
		}
		if h < 0xD800 || h > 0xDBFF || l < 0xDC00 || l > 0xDFFF {
			bad = append(bad, fmt.Sprintf("U+%X ↦ (0x%X, 0x%X) is not a (high, low) surrogate pair", int(cp), int(h), int(l)))
			continue
		}
		back, ok := evalJSNum(cInit, map[string]float64{hVar: h, lVar: l})
		if !ok {
			r.Undecided("pair:maps", cInit.Pos(), "composition is not an arithmetic expression of the two code units")
			return
		}
		if back != cp {
			bad = append(bad, fmt.Sprintf("U+%X ↦ (0x%X, 0x%X) ↦ U+%X", int(cp), int(h), int(l), int(back)))
		}
	}
	r.Check(len(bad) == 0, "pair:inverse", cInit.Pos(), fmt.Sprintf("`%s` ($internalize) inverts `%s` / `%s` ($externalize) on %d corner points of U+10000..U+10FFFF %s", squash(cInit.Src()), squash(hInit.Src()), squash(lInit.Src()), len(corners), strings.Join(bad, "; ")))

	// the pair is consumed only under the high-surrogate test, unconditionally within it, and advances by two
	var guard *ctx.JSNode
	var extra []string
	for p := cInit.Parent; p != nil && p != in && guard == nil; p = p.Parent {
		var test *ctx.JSNode
		switch {
		case p.Is("IfStatement"):
			test = p.N("test")
		case p.Is("ConditionalExpression"), p.Is("LogicalExpression"):
			extra = append(extra, squash(p.Src()))
			continue
		default:
			continue
		}
		onlyH, onlyUnits := true, true
		for _, id := range freeIdentNames(test) {
			if id != hVar {
				onlyH = false
			}
			if id != hVar && id != lVar {
				onlyUnits = false
			}
		}
		switch {
		case onlyH:
			guard = p
		case onlyUnits:
			// a test of the low unit's class: judged by the boundary obligations above
		default:
			extra = append(extra, squash(test.Src()))
		}
	}
	if guard == nil {
		r.Violation("pair:guarded", cInit.Pos(), "the composition of a surrogate pair is not guarded by a test of the first code unit alone")
		return
	}
	tests := map[float64]bool{}
	guard.N("test").Walk(func(x *ctx.JSNode) bool {
		if s, ok := comparisonSplit(x); ok {
			tests[s] = true
		}
		return true
	})
	var ts []string
	for s := range tests {
		ts = append(ts, fmt.Sprintf("0x%X", int(s)))
	}
	sort.Strings(ts)
	r.Check(tests[0xD800] && tests[0xDC00] && len(tests) == 2, "pair:guarded", guard.Pos(), fmt.Sprintf("the pair is composed exactly when the first unit is a high surrogate (splits on %s at %v)", hVar, ts))
	r.Check(len(extra) == 0, "pair:unconditional", guard.Pos(), fmt.Sprintf("between the high-surrogate test and the composition stand only surrogate-class tests of the two units (other conditions: %v)", extra))
	// advance by two in the guarded block, by one otherwise
	gs := squash(guard.N("consequent").Src())
	r.Check(strings.Contains(gs, "+=2;") && strings.Contains(gs, "continue;"), "pair:advance", guard.Pos(), "a consumed pair advances the index by two units and skips the single-unit path")
}

func keysOf(m map[string]bool) []string {
	var out []string
	for k := range m {
		out = append(out, k)
	}
	sort.Strings(out)
	return out
}

// freeIdentNames lists the distinct referenced identifiers of an expression in
// order of first appearance (member property names and callee objects like Math excluded).
func freeIdentNames(n *ctx.JSNode) []string {
	var out []string
	seen := map[string]bool{}
	n.Walk(func(x *ctx.JSNode) bool {
		if x.Is("Identifier") && x.IsRefIdent() {
			nm := x.IdentName()
			if nm == "Math" || nm == "String" || seen[nm] {
				return true
			}
			seen[nm] = true
			out = append(out, nm)
		}
		return true
	})
	return out
}
