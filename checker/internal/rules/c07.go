package rules

import (
	"fmt"
	"go/ast"
	"go/token"
	"go/types"
	"strings"

	"verif/checker/internal/core"
	"verif/checker/internal/ctx"
	"verif/checker/internal/tmpl"
)

func init() {
	register(&Property{
		ID:          "C07",
		Explanation: "Decided: (contexts) every copying context of the translator — call arguments, composite-literal elements/keys/values/fields, send values, map stores, method receivers, explicit conversions — converts its operand through the cloning helper, and assignment/definition of array or struct destinations emits $clone or T.copy; the non-cloning helper is only called from the reviewed comparison/lookup/print/return contexts (inventory); (box) conversion of an array or struct operand to an interface goes through a clone; (deep) the run-time copiers recurse into both value kinds (array and struct) and $clone is zero()+copy of the same type. NOT decided: aliasing behaviour of pointers/slices/maps at run time, append reallocation.",
		Assumptions: []string{"translateImplicitConversionWithCloning is the single cloning conversion helper and $clone/T.copy the only copy primitives"},
		Rules:       []RuleFunc{ruleC07Contexts, ruleC07Box, ruleC07Deep, ruleSliceHeaderPreserved, ruleC09ReceiverClone, ruleC07ReceiverCopy},
	})
}

type callSite struct {
	fn       string
	casePath []string
	call     *ast.CallExpr
}

// callSitesOf lists calls to a method/function of package compiler by name, with case paths.
func callSitesOf(c *ctx.Ctx, name string) []callSite {
	var out []callSite
	info := c.Pkg("compiler").TypesInfo
	for _, fd := range c.AllFuncDecls("compiler") {
		if fd.Body == nil {
			continue
		}
		fn := ctx.FuncName(fd)
		var stack []ast.Node
		ast.Inspect(fd.Body, func(n ast.Node) bool {
			if n == nil {
				stack = stack[:len(stack)-1]
				return true
			}
			stack = append(stack, n)
			if ce, ok := n.(*ast.CallExpr); ok {
				if _, _, nm := callee(info, ce); nm == name {
					out = append(out, callSite{fn, casePathOf(info, stack), ce})
				}
			}
			return true
		})
	}
	return out
}

type mustClone struct {
	id, fn, path string
	exact        bool
	min          int
	what         string
}

var mustCloneSites = []mustClone{
	{"call-arguments", "funcContext.translateArgs", "", true, 1, "arguments are converted to the parameter type with a copy (callee may mutate its parameter)"},
	{"composite-elements", "funcContext.translateExpr", "type:*ast.CompositeLit", true, 1, "array/slice literal elements are copied into the literal"},
	{"composite-map", "funcContext.translateExpr", "type:*ast.CompositeLit/type:*types.Map", true, 2, "map literal keys and values are copied"},
	{"composite-struct", "funcContext.translateExpr", "type:*ast.CompositeLit/type:*types.Struct", true, 2, "struct literal fields (positional and keyed) are copied"},
	{"receiver", "funcContext.makeReceiver", "", true, 1, "a value receiver is a copy of the operand"},
	{"send", "funcContext.translateStmt", "type:*ast.SendStmt", true, 1, "a sent value is copied into the channel"},
	{"select-send", "funcContext.translateStmt", "type:*ast.SelectStmt/type:*ast.SendStmt", true, 1, "a value sent from a select case is copied"},
	{"map-store", "funcContext.translateAssign", "", true, 2, "map store copies key and value"},
	{"conversion", "funcContext.translateConversion", "", true, 1, "an explicit conversion between struct/array types yields a copy"},
	{"range-array", "funcContext.translateStmt", "type:*ast.RangeStmt", true, 1, "ranging over an array with a value variable iterates over a copy taken before the first iteration (Go spec: the range expression is evaluated once; assignments to the array inside the loop are not seen by the iteration values)"},
}

// reviewed contexts of the non-cloning helper (aliasing impossible or the consumer copies)
var nonCloningReviewed = []struct{ fn, path, why string }{
	{"funcContext.translateExpr", "type:*ast.BinaryExpr/_.Op:token.EQL", "comparison operands are only read"},
	{"funcContext.translateExpr", "type:*ast.IndexExpr/type:*types.Map", "map lookup key is hashed by keyFor, not stored"},
	{"funcContext.translateBuiltin", `_:"panic"`, "the panic value is boxed into an interface (see C07.box)"},
	{"funcContext.translateBuiltin", `_:"delete"`, "the deleted key is hashed by keyFor, not stored"},
	{"funcContext.translateExprSlice", "", "append elements are copied by $copyArray, print operands are only read"},
	{"funcContext.translateStmt", "type:*ast.AssignStmt", "assignment to the blank identifier discards the value"},
	{"funcContext.translateResults", "", "results are copied by the consumer of the call (assignment, argument passing)"},
	{"funcContext.translateImplicitConversionWithCloning", "", "fall-through for non-array, non-struct destination types"},
}

func ruleC07Contexts(c *ctx.Ctx, r *core.Reporter) {
	r.Begin("C07.contexts", "F-WHO", "every copying context converts through the cloning helper; array/struct assignment emits $clone or T.copy; uses of the non-cloning helper are inventoried against the reviewed contexts", 12)
	cloning := callSitesOf(c, "translateImplicitConversionWithCloning")
	for _, m := range mustCloneSites {
		if fd := followDelegation(c, c.FuncDecl("compiler", m.fn)); fd != nil {
			m.fn = ctx.FuncName(fd)
		}
		n := 0
		site := "compiler"
		for _, s := range cloning {
			jp := strings.Join(s.casePath, "/")
			if s.fn == m.fn && ((m.exact && jp == m.path) || (!m.exact && strings.Contains(jp, m.path))) {
				n++
				site = c.Pos(s.call.Pos())
			}
		}
		r.Check(n >= m.min, "must-clone:"+m.id, site, fmt.Sprintf("%s in %s [%s]: %d call(s) of translateImplicitConversionWithCloning (need %d) — %s", m.id, m.fn, m.path, n, m.min, m.what))
	}
	// translateArgs has no use for the non-cloning helper: every argument, the individually passed variadic
	// ones included (the callee's xs[i] must not alias the caller's variable), is copied
	if fd := c.FuncDecl("compiler", "funcContext.translateArgs"); fd != nil {
		n := len(callsNamed(fd.Body, "translateImplicitConversion"))
		r.Check(n == 0, "call-arguments:no-non-cloning-path", c.Pos(fd.Pos()), fmt.Sprintf("translateArgs calls the non-cloning conversion helper %d time(s): an argument converted there reaches the callee as the caller's own array or struct (f(a, b) with func f(xs ...T): xs[0] aliases a)", n))
	}
	// the cloning helper clones exactly for Array|Struct destinations
	if fd := c.FuncDecl("compiler", "funcContext.translateImplicitConversionWithCloning"); fd != nil {
		ok := false
		ast.Inspect(fd.Body, func(n ast.Node) bool {
			cc, isCC := n.(*ast.CaseClause)
			if !isCC {
				return true
			}
			labs := map[string]bool{}
			for _, l := range cc.List {
				labs[exprStr(l)] = true
			}
			if labs["*types.Struct"] && labs["*types.Array"] {
				for _, ce := range findCalls(c.Pkg("compiler").TypesInfo, cc, modPath("compiler"), "funcContext.formatExpr") {
					if t := templateOfCall(c, ce); t != nil && strings.HasPrefix(t.Text, "$clone(") {
						ok = true
					}
				}
			}
			return true
		})
		r.Check(ok, "cloning-helper:clones-array-and-struct", c.Pos(fd.Pos()), "translateImplicitConversionWithCloning emits $clone for both *types.Struct and *types.Array destinations")
		checkCloneBypasses(c, r, fd)
	}
	// translateAssign: Array|Struct destinations copy (follow a pure delegation wrapper)
	if fd := followDelegation(c, c.FuncDecl("compiler", "funcContext.translateAssign")); fd != nil {
		var arm *ast.CaseClause
		ast.Inspect(fd.Body, func(n ast.Node) bool {
			if cc, ok := n.(*ast.CaseClause); ok && len(cc.List) == 2 {
				labs := map[string]bool{exprStr(cc.List[0]): true, exprStr(cc.List[1]): true}
				if labs["*types.Array"] && labs["*types.Struct"] && arm == nil {
					arm = cc
				}
			}
			return true
		})
		if arm == nil {
			r.Violation("assign:array-struct-arm", c.Pos(fd.Pos()), "translateAssign has no arm for *types.Array, *types.Struct destinations")
		} else {
			var texts []string
			for _, t := range corpus(c).Templates {
				if t.Pos >= arm.Pos() && t.Pos < arm.End() {
					texts = append(texts, t.Text)
				}
			}
			hasClone, hasCopy := false, false
			for _, s := range texts {
				if strings.Contains(s, "= $clone(") {
					hasClone = true
				}
				if strings.Contains(s, ".copy(") {
					hasCopy = true
				}
			}
			r.Check(hasClone, "assign:define-clones", c.Pos(arm.Pos()), "defining a new array/struct variable stores a $clone of the right-hand side")
			r.Check(hasCopy, "assign:assign-copies", c.Pos(arm.Pos()), "assigning to an existing array/struct copies into it with T.copy")
			// the arm precedes the generic per-lhs-kind switch (which would alias)
			var generic token.Pos
			ast.Inspect(fd.Body, func(n ast.Node) bool {
				if ts, ok := n.(*ast.TypeSwitchStmt); ok && strings.Contains(nodeString(c, ts.Assign), firstParamName(fd)+".(type)") {
					generic = ts.Pos()
				}
				return true
			})
			r.Check(generic != token.NoPos && arm.Pos() < generic, "assign:copy-before-plain-store", c.Pos(arm.Pos()), "the copying arm is evaluated before the plain `lhs = rhs` translations")
			// the copying arm may only be bypassed by the reviewed conditions: every enclosing `if` of the arm's
			// switch is the single negated reflect.Value flag
			// the reviewed exception flag: set to true exactly under the test "the destination type is reflect.Value"
			reflectFlag := ""
			for _, m := range findGoPattern(fd.Body, `if µn, µok := µt.(*types.Named); µok && µn.Obj().Pkg() != nil && µn.Obj().Pkg().Path() == "reflect" && µn.Obj().Name() == "Value" { µflag = true }`) {
				reflectFlag = m.Env["µflag"]
			}
			extra := ""
			for _, cd := range enclosingConds(fd.Body, arm.Pos()) {
				if strings.HasPrefix(cd, "case ") {
					continue
				}
				if squash(cd) != "!"+reflectFlag {
					extra = cd
				}
			}
			r.Check(extra == "", "assign:no-extra-bypass", c.Pos(arm.Pos()), ternary(extra == "", "the copy is skipped only for reflect.Value", fmt.Sprintf("the copying arm is additionally guarded by %q: under that condition an array or struct is stored by reference, so pointers taken to the destination earlier no longer observe it (and the source is aliased)", extra)))
			// the only bypasses are the reviewed ones
			_ = nodeString
			r.Check(reflectFlag != "", "assign:bypass:reflect.Value", c.Pos(fd.Pos()), "the only named type exempt from copying is reflect.Value (reviewed performance exception)")
			// every return that precedes the copying arm is a bypass of it; the reviewed ones are the map store
			// (which clones through the helper, see must-clone:map-store) and the definition from a composite
			// literal — where "definition" must be a conjunct of the guard: for a plain assignment the
			// destination may already be aliased, so it has to be copied into, not rebound
			defineParam, rhsParam := "", ""
			if ps := fd.Type.Params.List; len(ps) >= 2 {
				if last := ps[len(ps)-1]; len(last.Names) == 1 && exprStr(last.Type) == "bool" {
					defineParam = last.Names[0].Name
				}
				if first := ps[0]; len(first.Names) == 2 {
					rhsParam = first.Names[1].Name
				}
			}
			nBypass := 0
			ast.Inspect(fd.Body, func(n ast.Node) bool {
				if _, isLit := n.(*ast.FuncLit); isLit {
					return false
				}
				ret, ok := n.(*ast.ReturnStmt)
				if !ok || ret.Pos() >= arm.Pos() {
					return true
				}
				kind, hasDefine := "", false
				for _, is := range enclosingIfs(fd.Body, ret.Pos()) {
					if as, ok := is.Init.(*ast.AssignStmt); ok && len(as.Rhs) == 1 {
						if ta, ok := as.Rhs[0].(*ast.TypeAssertExpr); ok && ta.Type != nil {
							switch exprStr(ta.Type) {
							case "*ast.IndexExpr", "*types.Map":
								kind = "map-store"
							case "*ast.CompositeLit":
								if exprStr(ta.X) == rhsParam {
									kind = "fresh-literal"
								}
							}
						}
					}
					for _, cj := range conjuncts(is.Cond) {
						if id, ok := cj.(*ast.Ident); ok && id.Name == defineParam && defineParam != "" {
							hasDefine = true
						}
					}
				}
				nBypass++
				switch kind {
				case "map-store":
				case "fresh-literal":
					r.Check(hasDefine, "assign:bypass:fresh-literal", c.Pos(ret.Pos()), "the store without a copy of a composite literal is taken only for a definition (`"+defineParam+"` is a conjunct of its guard): a plain assignment must copy into the existing, possibly aliased, destination")
				default:
					r.Violation(fmt.Sprintf("assign:bypass:unreviewed#%d", nBypass), c.Pos(ret.Pos()), "an early return ahead of the copying arm that is neither the map store nor the definition from a composite literal")
				}
				return true
			})
			r.Check(nBypass >= 1, "assign:bypass:inventory", c.Pos(fd.Pos()), fmt.Sprintf("%d early returns precede the copying arm, all reviewed", nBypass))
		}
	}
	// inventory of the non-cloning helper
	n := 0
	for _, s := range callSitesOf(c, "translateImplicitConversion") {
		n++
		jp := strings.Join(s.casePath, "/")
		reviewed := ""
		for _, rv := range nonCloningReviewed {
			if rv.fn == s.fn && strings.Contains(jp, rv.path) {
				reviewed = rv.why
			}
		}
		if reviewed == "" {
			r.Info("non-cloning-use:"+s.fn+"["+jp+"]", c.Pos(s.call.Pos()), "call of the non-cloning conversion helper outside the reviewed contexts (not judged; the must-clone obligations decide)")
		}
	}
	r.Count("non-cloning conversion call sites inventoried", n)
}

func ruleC07Box(c *ctx.Ctx, r *core.Reporter) {
	r.Begin("C07.box", "F-TABLE", "converting an array- or struct-typed operand to an interface type stores a copy in the interface value", 2)
	fd := c.FuncDecl("compiler", "funcContext.translateImplicitConversion")
	if fd == nil {
		r.Undecided("translateImplicitConversion", "compiler/expressions.go", "not found")
		return
	}
	var arm *ast.CaseClause
	ast.Inspect(fd.Body, func(n ast.Node) bool {
		if cc, ok := n.(*ast.CaseClause); ok && len(cc.List) == 1 && exprStr(cc.List[0]) == "*types.Interface" {
			arm = cc
		}
		return true
	})
	if arm == nil {
		r.Undecided("interface-arm", c.Pos(fd.Pos()), "no `case *types.Interface` arm")
		return
	}
	// Walk the statements of the arm in order. For each operand kind K (Struct, Array) find the first
	// return that K can reach: guards `isStruct`, `isArray`/`*types.Array`, `isWrapped(exprType)` (true for arrays,
	// false for structs), IsJsObject (false for both).
	reaches := func(kind string, cond string) (yes, known bool) {
		switch {
		case strings.Contains(cond, "IsJsObject"):
			return false, true
		case strings.Contains(cond, "isWrapped("):
			return kind == "Array", true
		case strings.Contains(cond, "isStruct") || strings.Contains(cond, "*types.Struct"):
			return kind == "Struct", true
		case strings.Contains(cond, "isArray") || strings.Contains(cond, "*types.Array"):
			return kind == "Array", true
		}
		return false, false
	}
	for _, kind := range []string{"Struct", "Array"} {
		verdict, site, detail := "", c.Pos(arm.Pos()), ""
		for _, st := range arm.Body {
			is, ok := st.(*ast.IfStmt)
			if !ok {
				continue
			}
			cond := exprStr(is.Cond)
			if is.Init != nil {
				cond = nodeString(c, is.Init) + "; " + cond
			}
			yes, known := reaches(kind, cond)
			if !known {
				verdict, detail = "undecided", "unrecognised guard "+cond
				site = c.Pos(is.Pos())
				break
			}
			if !yes {
				continue
			}
			// first reaching return: its template must clone
			text := ""
			for _, t := range corpus(c).Templates {
				if t.Pos >= is.Body.Pos() && t.Pos < is.Body.End() && t.Role == tmpl.RoleSink {
					text = t.Text
				}
			}
			site = c.Pos(is.Pos())
			if strings.Contains(text, "$clone(") {
				verdict, detail = "ok", "template "+text
			} else {
				verdict, detail = "bad", fmt.Sprintf("an operand of kind %s is boxed by template %q, which stores the operand itself: a later mutation of the variable is visible through the interface value", kind, text)
			}
			break
		}
		switch verdict {
		case "ok":
			r.OK("box:"+kind, site, detail)
		case "bad":
			r.Violation("box:"+kind, site, detail)
		case "undecided":
			r.Undecided("box:"+kind, site, detail)
		default:
			r.Violation("box:"+kind, site, "no arm boxes "+kind+" operands: they fall through to translateExpr and are stored unboxed and uncopied")
		}
	}
}

func ruleC07Deep(c *ctx.Ctx, r *core.Reporter) {
	r.Begin("C07.deep", "F-EXH", "the run-time copiers dispatch both value kinds (array, struct) to a recursive copy; array copy delegates to $copyArray with its element type; $clone is zero() followed by copy of the same type", 6)
	if !needPrelude(c, r) {
		return
	}
	// $copyArray
	ca := c.PreludeFunc("$copyArray")
	if ca == nil {
		r.Undecided("$copyArray", "compiler/prelude/prelude.js", "not found")
	} else {
		arms := kindSwitchArms(ca, "")
		for _, k := range []string{"$kindArray", "$kindStruct"} {
			arm := arms[k]
			ok := arm != nil && arm != arms["default"] && strings.Contains(squash(armSrc(arm)), ".copy(dst[")
			site := ca.Pos()
			if arm != nil {
				site = arm.Pos()
			}
			r.Check(ok, "copyArray:"+k, site, "$copyArray copies elements of kind "+k+" with the element type's copy (element-wise deep copy), not by reference")
		}
	}
	// struct copy closure in $newType
	nt := c.PreludeFunc("$newType")
	if nt == nil {
		r.Undecided("$newType", "compiler/prelude/types.js", "not found")
		return
	}
	arms := switchArmsByDiscriminant(nt, "kind")
	if st := arms["$kindStruct"]; st != nil {
		var cp *ctx.JSNode
		for _, s := range st.L("consequent") {
			s.Walk(func(n *ctx.JSNode) bool {
				if cp == nil && n.Is("AssignmentExpression") && n.N("left").MemberName() == "copy" && n.N("right").IsFunc() {
					cp = n.N("right")
				}
				return cp == nil
			})
		}
		if cp == nil {
			r.Violation("structCopy", st.Pos(), "the struct arm of $newType installs no copy function")
		} else {
			ka := kindSwitchArms(cp, "")
			for _, k := range []string{"$kindArray", "$kindStruct"} {
				arm := ka[k]
				ok := arm != nil && arm != ka["default"] && strings.Contains(squash(armSrc(arm)), ".copy(dst[")
				r.Check(ok, "structCopy:"+k, cp.Pos(), "the struct copier copies fields of kind "+k+" recursively instead of sharing them")
			}
		}
	}
	if ar := arms["$kindArray"]; ar != nil {
		src := squash(armSrc(ar))
		r.Check(strings.Contains(src, "$copyArray(dst,src,0,0,src.length,elem)"), "arrayCopy:delegates", ar.Pos(), "the array copier delegates to $copyArray with the array's element type")
	}
	if cl := c.PreludeFunc("$clone"); cl != nil && len(funcParams(cl)) == 2 {
		p := funcParams(cl)
		src := squash(cl.Src())
		ok := strings.Contains(src, p[1]+".zero()") && strings.Contains(src, p[1]+".copy(clone,"+p[0]+")") && strings.Contains(src, "returnclone")
		r.Check(ok, "clone:zero+copy", cl.Pos(), "$clone(src, type) returns type.zero() filled by type.copy(clone, src)")
	}
	// $copyArray is a memmove: source and destination may be the same backing array (copy(s[1:], s),
	// append(s[:i+1], s[i:]...)). Every ascending element-wise loop therefore needs, before it, the
	// descending loop for the overlapping case dst === src && dstOffset > srcOffset.
	if ca := c.PreludeFunc("$copyArray"); ca != nil {
		ps := funcParams(ca)
		if len(ps) < 4 {
			r.Undecided("copyArray:overlap", ca.Pos(), "unexpected parameter list")
		} else {
			dst, src, dOff, sOff := ps[0], ps[1], ps[2], ps[3]
			isOverlapTest := func(t *ctx.JSNode) bool {
				q := squash(t.Src())
				return strings.Contains(q, dst+"==="+src) && strings.Contains(q, dOff+">"+sOff)
			}
			n := 0
			ca.Walk(func(x *ctx.JSNode) bool {
				if !x.Is("ForStatement") || x.N("update") == nil || squash(x.N("update").Src()) == "" {
					return true
				}
				up := squash(x.N("update").Src())
				if !strings.HasSuffix(up, "++") {
					return true
				}
				bodySrc := squash(x.N("body").Src())
				if !strings.Contains(bodySrc, dst+"[") || !strings.Contains(bodySrc, src+"[") {
					return true
				}
				n++
				// siblings before x in the same statement list
				okGuard := false
				if p := x.Parent; p != nil {
					var list []*ctx.JSNode
					switch {
					case p.Is("BlockStatement"), p.Is("Program"):
						list = p.L("body")
					case p.Is("SwitchCase"):
						list = p.L("consequent")
					}
					for _, sib := range list {
						if sib == x {
							break
						}
						if sib.Is("IfStatement") && isOverlapTest(sib.N("test")) {
							cons := sib.N("consequent")
							hasDown, hasRet := false, false
							cons.Walk(func(y *ctx.JSNode) bool {
								if y.Is("ForStatement") && y.N("update") != nil && strings.HasSuffix(squash(y.N("update").Src()), "--") {
									hasDown = true
								}
								if y.Is("ReturnStatement") {
									hasRet = true
								}
								return true
							})
							okGuard = hasDown && hasRet
						}
					}
				}
				r.Check(okGuard, fmt.Sprintf("copyArray:overlap-safe#%d", n), x.Pos(), "an ascending element-wise copy loop is preceded by the descending loop for overlapping ranges of one backing array (memmove semantics of copy and append)")
				return true
			})
			r.Check(n >= 2, "copyArray:loops", ca.Pos(), fmt.Sprintf("$copyArray has element-wise loops for composite and for plain elements (%d)", n))
		}
	}

	// a slice is (array, offset, length): whoever hands <s>.$array to $copyArray must hand <s>.$offset with it
	nca := 0
	for _, f := range c.PreludeList() {
		f.AST.Walk(func(x *ctx.JSNode) bool {
			if !x.Is("CallExpression") || x.N("callee").IdentName() != "$copyArray" || len(x.L("arguments")) < 4 {
				return true
			}
			args := x.L("arguments")
			for k := 0; k < 2; k++ {
				a := args[k]
				if a.Is("MemberExpression") && a.MemberName() == "$array" {
					nca++
					owner := squash(a.N("object").Src())
					off := squash(args[k+2].Src())
					r.Check(strings.Contains(off, owner+".$offset"), fmt.Sprintf("copyArray:offset-with-array:%s#%d", ctx.JSFuncName(x.EnclosingFunc()), nca), x.Pos(), fmt.Sprintf("$copyArray is given %s.$array together with %s.$offset (offset argument: `%s`)", owner, owner, off))
				}
			}
			return true
		})
	}
	r.Check(nca >= 3, "copyArray:slice-operands", "compiler/prelude", fmt.Sprintf("%d slice operands of $copyArray examined", nca))
	// growing a slice allocates a new backing array: arrays and structs are values and must be copied into
	// it, not shared with the old one
	if gs := c.PreludeFunc("$growSlice"); gs != nil {
		sliced := false
		cloned := false
		gs.Walk(func(x *ctx.JSNode) bool {
			if x.Is("CallExpression") && x.N("callee").Is("MemberExpression") && x.N("callee").MemberName() == "slice" {
				sliced = true
			}
			if x.Is("IfStatement") {
				t := squash(x.N("test").Src())
				if strings.Contains(t, "$kindArray") && strings.Contains(t, "$kindStruct") {
					c2 := squash(x.N("consequent").Src())
					if (strings.Contains(c2, "$clone(") || strings.Contains(c2, ".copy(")) && strings.Contains(c2, "for(") {
						cloned = true
					}
				}
			}
			return true
		})
		r.Check(!sliced || cloned, "growSlice:composite-elements-copied", gs.Pos(), "the new backing array made by Array.prototype.slice (a shallow copy) gets its own copies of array and struct elements")
	} else {
		r.Undecided("growSlice:composite-elements-copied", "compiler/prelude/prelude.js", "$growSlice not found")
	}

}

// followDelegation: if fd's body is a single `return fc.other(...)`, analyse that method instead.
func followDelegation(c *ctx.Ctx, fd *ast.FuncDecl) *ast.FuncDecl {
	for i := 0; i < 3 && fd != nil && fd.Body != nil && len(fd.Body.List) == 1; i++ {
		rs, ok := fd.Body.List[0].(*ast.ReturnStmt)
		if !ok || len(rs.Results) != 1 {
			break
		}
		ce, ok := rs.Results[0].(*ast.CallExpr)
		if !ok {
			break
		}
		sel, ok := ce.Fun.(*ast.SelectorExpr)
		if !ok {
			break
		}
		next := c.FuncDecl("compiler", "funcContext."+sel.Sel.Name)
		if next == nil {
			break
		}
		fd = next
	}
	return fd
}

// enclosingIfs lists, outermost first, the if statements whose then-branch contains pos.
func enclosingIfs(root ast.Node, pos token.Pos) []*ast.IfStmt {
	var out []*ast.IfStmt
	ast.Inspect(root, func(n ast.Node) bool {
		if n == nil || !(n.Pos() <= pos && pos < n.End()) {
			return n == root
		}
		if is, ok := n.(*ast.IfStmt); ok && is.Body.Pos() <= pos && pos < is.Body.End() {
			out = append(out, is)
		}
		return true
	})
	return out
}

// conjuncts splits a condition on && (through parentheses).
func conjuncts(e ast.Expr) []ast.Expr {
	switch x := e.(type) {
	case *ast.ParenExpr:
		return conjuncts(x.X)
	case *ast.BinaryExpr:
		if x.Op == token.LAND {
			return append(conjuncts(x.X), conjuncts(x.Y)...)
		}
	}
	return []ast.Expr{e}
}

// checkCloneBypasses: inside the Struct|Array arm of the cloning helper every return must produce a
// $clone, except under a guard that admits only expressions denoting a fresh value. The only such
// expression class is the composite literal: a call result is NOT fresh, because return statements hand
// out stored arrays and structs without copying (translateResults uses the non-cloning conversion).
func checkCloneBypasses(c *ctx.Ctx, r *core.Reporter, fd *ast.FuncDecl) {
	info := c.Pkg("compiler").TypesInfo
	var arm *ast.CaseClause
	ast.Inspect(fd.Body, func(n ast.Node) bool {
		if cc, ok := n.(*ast.CaseClause); ok && arm == nil {
			labs := map[string]bool{}
			for _, l := range cc.List {
				labs[exprStr(l)] = true
			}
			if labs["*types.Struct"] && labs["*types.Array"] {
				arm = cc
			}
		}
		return true
	})
	if arm == nil {
		return
	}
	nRet, nClone := 0, 0
	ast.Inspect(arm, func(n ast.Node) bool {
		ret, ok := n.(*ast.ReturnStmt)
		if !ok {
			return true
		}
		nRet++
		isClone := false
		for _, ce := range findCalls(info, ret, modPath("compiler"), "funcContext.formatExpr") {
			if t := templateOfCall(c, ce); t != nil && strings.HasPrefix(t.Text, "$clone(") {
				isClone = true
			}
		}
		if isClone {
			nClone++
			return true
		}
		// a bypass: every admitted expression class must be fresh
		guards := enclosingIfs(arm, ret.Pos())
		if len(guards) == 0 {
			r.Violation(fmt.Sprintf("cloning-helper:bypass#%d", nRet), c.Pos(ret.Pos()), "an unconditional return without $clone in the Struct|Array arm of the cloning helper")
			return true
		}
		classes, why := freshClasses(c, info, guards)
		bad := []string{}
		for _, cl := range classes {
			if cl != "*ast.CompositeLit" {
				bad = append(bad, cl)
			}
		}
		switch {
		case why != "":
			r.Undecided(fmt.Sprintf("cloning-helper:bypass#%d", nRet), c.Pos(ret.Pos()), "cannot determine which expressions skip the copy: "+why)
		default:
			r.Check(len(bad) == 0, fmt.Sprintf("cloning-helper:bypass#%d", nRet), c.Pos(ret.Pos()), fmt.Sprintf("the copy is skipped only for expressions that denote a fresh value (admitted: %v; not fresh: %v — a call result may be an array or struct stored elsewhere, since return statements do not copy)", classes, bad))
		}
		return true
	})
	r.Check(nClone >= 1, "cloning-helper:clone-return", c.Pos(arm.Pos()), fmt.Sprintf("the Struct|Array arm has a return that produces $clone (%d of %d returns)", nClone, nRet))
}

// freshClasses determines the syntactic classes of expressions admitted by the guards: each guard is a
// type assertion `_, ok := e.(*ast.X); ok` or a call of a predicate of package compiler whose body is a
// type switch returning true in some arms.
func freshClasses(c *ctx.Ctx, info *types.Info, guards []*ast.IfStmt) (classes []string, undecided string) {
	for _, g := range guards {
		if as, ok := g.Init.(*ast.AssignStmt); ok && len(as.Rhs) == 1 {
			if ta, ok := as.Rhs[0].(*ast.TypeAssertExpr); ok && ta.Type != nil && len(conjuncts(g.Cond)) == 1 {
				classes = append(classes, exprStr(ta.Type))
				continue
			}
		}
		call, ok := g.Cond.(*ast.CallExpr)
		if !ok {
			return nil, "guard `" + exprStr(g.Cond) + "` is neither a type assertion nor a predicate call"
		}
		pkg, recv, name := callee(info, call)
		if pkg != modPath("compiler") {
			return nil, "predicate " + exprStr(call.Fun) + " is not a function of package compiler"
		}
		key := name
		if recv != "" {
			key = recv + "." + name
		}
		pd := c.FuncDecl("compiler", key)
		if pd == nil || pd.Body == nil {
			return nil, "predicate " + key + " not found"
		}
		found := false
		ast.Inspect(pd.Body, func(n ast.Node) bool {
			ts, ok := n.(*ast.TypeSwitchStmt)
			if !ok {
				return true
			}
			found = true
			for _, st := range ts.Body.List {
				cc := st.(*ast.CaseClause)
				mayBeTrue := false
				ast.Inspect(cc, func(m ast.Node) bool {
					if ret, ok := m.(*ast.ReturnStmt); ok && len(ret.Results) == 1 && exprStr(ret.Results[0]) != "false" {
						mayBeTrue = true
					}
					return true
				})
				if mayBeTrue {
					if cc.List == nil {
						classes = append(classes, "default")
					}
					for _, l := range cc.List {
						classes = append(classes, exprStr(l))
					}
				}
			}
			return false
		})
		if !found {
			return nil, "predicate " + key + " is not a type switch over the expression"
		}
	}
	return classes, ""
}
