package rules

// Catalogue mutants for the rules added after the fifth round of seeded changes (the seeds themselves are
// replayed as mutants by seedmutants.go; these are different edits that break the same obligations), and
// behaviour-preserving controls.
func init() {
	const utils = "compiler/utils.go"
	const expr = "compiler/expressions.go"
	const comp = "compiler/compiler.go"
	const linkname = "compiler/linkname/linkname.go"
	const typesjs = "compiler/prelude/types.js"
	addMutants(
		Mutant{ID: "variadic-empty-literal", Property: "C01", File: utils, Old: "\t\tif len(args) == sigTypes.RequiredParams() {", New: "\t\tif len(args) < sigTypes.RequiredParams() {", Rule: "C01.variadic", Note: "the nil branch is unreachable: f(a) passes an empty non-nil slice"},
		Mutant{ID: "ctl-variadic-respelled", Property: "C01", File: utils, Silent: true, Old: "\t\tif len(args) == sigTypes.RequiredParams() {\n\t\t\t// If no variadic parameters were passed, the slice value defaults to nil.\n\t\t\tvariadic = fmt.Sprintf(\"%s.nil\", fc.typeName(sigTypes.VariadicType()))\n\t\t} else {\n\t\t\tvariadic = fmt.Sprintf(\"new %s([%s])\", fc.typeName(sigTypes.VariadicType()), strings.Join(args[sigTypes.RequiredParams():], \", \"))\n\t\t}", New: "\t\tif n := sigTypes.RequiredParams(); len(args) > n {\n\t\t\tvariadic = fmt.Sprintf(\"new %s([%s])\", fc.typeName(sigTypes.VariadicType()), strings.Join(args[n:], \", \"))\n\t\t} else {\n\t\t\tvariadic = fmt.Sprintf(\"%s.nil\", fc.typeName(sigTypes.VariadicType()))\n\t\t}", Note: "branches swapped, count held in a local"},
		Mutant{ID: "linknames-after-selection", Property: "C05", File: comp, Old: "\tgls := linkname.GoLinknameSet{}\n\tfor _, pkg := range pkgs {\n\t\tgls.Add(pkg.GoLinknames)\n\t}\n\n\tsel := &dce.Selector[*Decl]{}", New: "\tgls := linkname.GoLinknameSet{}\n\n\tsel := &dce.Selector[*Decl]{}", Rule: "C05.linknames-complete", Note: "the aggregation loop is dropped: the set is empty when the selector asks"},
		Mutant{ID: "linkname-split-first-dot", Property: "C10", File: linkname, Old: "\tif pos := strings.LastIndexByte(extName, '/'); pos != -1 {\n\t\tpathOffset = pos + 1\n\t}", New: "\tif pos := strings.IndexByte(extName, '/'); pos != -1 {\n\t\tpathOffset = pos + 1\n\t}", Rule: "C10.linkname-split", Note: "first slash instead of last: example.com/a/b.c/d.Name splits too early"},
		Mutant{ID: "struct-comparable-some", Property: "C08", File: typesjs, Old: "get: () => fields.every(f => f.typ.comparable)", New: "get: () => fields.some(f => f.typ.comparable)", Rule: "C08.comparable", Note: "one comparable field is enough"},
		Mutant{ID: "array-comparable-copied", Property: "C15", File: typesjs, Old: "                Object.defineProperty(typ, \"comparable\", { get: () => elem.comparable });", New: "                typ.comparable = elem.comparable;", Rule: "C08.comparable", Note: "the flag is copied at init time again (the repaired defect)"},
		Mutant{ID: "receiver-retyped-in-table", Property: "C04", File: expr, Old: "\t\trecv = fc.translateExpr(x)\n\t\tswitch methodsRecvType.Underlying().(type) {", New: "\t\tx = fc.setType(x, methodsRecvType)\n\t\trecv = fc.translateExpr(x)\n\t\tswitch methodsRecvType.Underlying().(type) {", Rule: "C04.shared-table", Note: "the repaired defect: the shared type table entry of a source node is overwritten"},
		Mutant{ID: "ctl-receiver-type-from-table", Property: "C04", File: expr, Silent: true, Old: "\trecvType := sel.Recv()\n\tif len(sel.Index()) > 1 {", New: "\trecvType := fc.typeOf(x)\n\tif len(sel.Index()) > 1 {", Note: "seed C04e after fix 986943b: reading the (substituted) recorded type of the receiver is equivalent once nothing overwrites the table"},
	)
}
