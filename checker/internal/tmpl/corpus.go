package tmpl

import (
	"fmt"
	"go/ast"
	"go/constant"
	"go/token"
	"go/types"
	"strings"

	"golang.org/x/tools/go/packages"
	"golang.org/x/tools/go/types/typeutil"
)

// Role of a template in the compiler.
type Role string

const (
	RoleSink     Role = "sink"     // format argument of an emission sink
	RoleFragment Role = "fragment" // other string constant that may reach JS output
	RoleMessage  Role = "message"  // diagnostics, comparisons, lookups: never emitted
)

// Template is one maximal string concatenation tree with at least one constant leaf.
type Template struct {
	Pos      token.Pos
	Expr     ast.Expr
	Func     string   // enclosing function ("T.M" / "F")
	CasePath []string // enclosing case labels, outermost first
	Role     Role
	Sink     string // callee name for sinks ("formatExpr", "Printf", "Sprintf", ...)
	ArgIndex int    // index of this expr among the call's arguments
	Call     *ast.CallExpr
	Dialect  Dialect
	Text     string // holes rendered ⟨n⟩
	Holes    []Hole
	Leaves   []ast.Expr // non-constant concat operands (for 'x' holes, Hole.Index indexes here)
	Tokens   []Token
	Why      string // classification reason
}

// Key is a position-free identity: function + case path + text.
func (t *Template) Key() string {
	return t.Func + "[" + strings.Join(t.CasePath, "/") + "]:" + t.Text
}

// FmtArgs returns the call arguments following the format (for sinks).
func (t *Template) FmtArgs() []ast.Expr {
	if t.Call == nil {
		return nil
	}
	if t.ArgIndex+1 <= len(t.Call.Args) {
		return t.Call.Args[t.ArgIndex+1:]
	}
	return nil
}

type Corpus struct {
	Templates []*Template
	Pkg       *packages.Package
}

// sinkSpec: callee -> (format argument index, dialect)
type sinkSpec struct {
	arg     int
	dialect Dialect
	all     bool // every string argument from arg on is a raw template (PrintCond)
}

func calleeName(info *types.Info, call *ast.CallExpr) (pkg, recv, name string) {
	obj := typeutil.Callee(info, call)
	if obj == nil {
		// builtin or conversion or func value
		switch f := ast.Unparen(call.Fun).(type) {
		case *ast.Ident:
			return "", "", f.Name
		case *ast.SelectorExpr:
			return "", "", f.Sel.Name
		}
		return "", "", ""
	}
	if obj.Pkg() != nil {
		pkg = obj.Pkg().Path()
	}
	if fn, ok := obj.(*types.Func); ok {
		if sig, ok := fn.Type().(*types.Signature); ok && sig.Recv() != nil {
			t := sig.Recv().Type()
			if p, ok := t.(*types.Pointer); ok {
				t = p.Elem()
			}
			if n, ok := t.(*types.Named); ok {
				recv = n.Obj().Name()
			}
		}
	}
	return pkg, recv, obj.Name()
}

const compilerPkg = "github.com/gopherjs/gopherjs/compiler"

func sinkOf(pkg, recv, name string) (sinkSpec, bool) {
	if pkg == compilerPkg && recv == "funcContext" {
		switch name {
		case "Printf":
			return sinkSpec{0, DialectFmt, false}, true
		case "PrintCond":
			return sinkSpec{1, DialectRaw, true}, true
		case "formatExpr", "formatParenExpr", "formatExprInternal":
			return sinkSpec{0, DialectExpr, false}, true
		}
	}
	if pkg == compilerPkg && recv == "" && name == "writeF" {
		return sinkSpec{2, DialectFmt, false}, true
	}
	if pkg == compilerPkg && recv == "" && name == "rangeCheck" {
		return sinkSpec{0, DialectExpr, false}, true
	}
	if pkg == "fmt" {
		switch name {
		case "Sprintf":
			return sinkSpec{0, DialectFmt, false}, true
		case "Fprintf":
			return sinkSpec{1, DialectFmt, false}, true
		}
	}
	return sinkSpec{}, false
}

// messageCallee reports callees whose string arguments never reach JS output.
func messageCallee(pkg, recv, name string) bool {
	switch {
	case pkg == "" && (name == "panic" || name == "bailout"):
		return true
	case pkg == compilerPkg && name == "bailout":
		return true
	case pkg == "fmt" && (name == "Errorf" || name == "Sprint" || name == "Fprint" || name == "Fprintln" || name == "Println"):
		return true
	case pkg == "errors":
		return true
	case pkg == "strings" || pkg == "regexp" || pkg == "bytes" || pkg == "strconv":
		return true
	case pkg == "go/ast" || pkg == "go/types" || pkg == "go/token" || pkg == "go/constant":
		return true
	}
	return false
}

// Build collects the corpus from package compiler (non-test files).
func Build(p *packages.Package, isTest func(token.Pos) bool) *Corpus {
	c := &Corpus{Pkg: p}
	info := p.TypesInfo
	for _, f := range p.Syntax {
		if isTest(f.Pos()) {
			continue
		}
		for _, d := range f.Decls {
			fd, ok := d.(*ast.FuncDecl)
			if !ok || fd.Body == nil {
				if gd, ok := d.(*ast.GenDecl); ok {
					c.walk(info, gd, "<pkg>", nil)
				}
				continue
			}
			c.walk(info, fd.Body, funcName(fd), nil)
		}
	}
	return c
}

func funcName(fd *ast.FuncDecl) string {
	if fd.Recv == nil || len(fd.Recv.List) == 0 {
		return fd.Name.Name
	}
	t := fd.Recv.List[0].Type
	if s, ok := t.(*ast.StarExpr); ok {
		t = s.X
	}
	if id, ok := t.(*ast.Ident); ok {
		return id.Name + "." + fd.Name.Name
	}
	return "?." + fd.Name.Name
}

func isConstString(info *types.Info, e ast.Expr) (string, bool) {
	tv, ok := info.Types[e]
	if !ok || tv.Value == nil || tv.Value.Kind() != constant.String {
		return "", false
	}
	return constant.StringVal(tv.Value), true
}

func isStringTyped(info *types.Info, e ast.Expr) bool {
	tv, ok := info.Types[e]
	if !ok || tv.Type == nil {
		return false
	}
	b, ok := tv.Type.Underlying().(*types.Basic)
	return ok && b.Info()&types.IsString != 0
}

// flatten a string-typed + tree into leaves.
func flatten(info *types.Info, e ast.Expr, out *[]ast.Expr) {
	if _, ok := isConstString(info, e); ok {
		*out = append(*out, e)
		return
	}
	switch x := e.(type) {
	case *ast.ParenExpr:
		flatten(info, x.X, out)
		return
	case *ast.BinaryExpr:
		if x.Op == token.ADD && isStringTyped(info, x) {
			flatten(info, x.X, out)
			flatten(info, x.Y, out)
			return
		}
	}
	*out = append(*out, e)
}

type frame struct {
	node ast.Node
}

func (c *Corpus) walk(info *types.Info, root ast.Node, fn string, _ []string) {
	var stack []ast.Node
	done := map[ast.Expr]bool{}
	ast.Inspect(root, func(n ast.Node) bool {
		if n == nil {
			stack = stack[:len(stack)-1]
			return true
		}
		stack = append(stack, n)
		e, ok := n.(ast.Expr)
		if !ok || done[e] {
			return true
		}
		if !isStringTyped(info, e) {
			return true
		}
		_, isConst := isConstString(info, e)
		be, isBin := e.(*ast.BinaryExpr)
		isConcat := isBin && be.Op == token.ADD
		if !isConst && !isConcat {
			return true
		}
		// maximal: parent is not a string + / paren of the same tree
		if len(stack) >= 2 {
			switch p := stack[len(stack)-2].(type) {
			case *ast.BinaryExpr:
				if p.Op == token.ADD && isStringTyped(info, p) {
					return true
				}
			case *ast.ParenExpr:
				if isStringTyped(info, p) {
					// handled at the paren level if it is itself inside a concat; else treat paren as transparent
					if len(stack) >= 3 {
						if pp, ok := stack[len(stack)-3].(*ast.BinaryExpr); ok && pp.Op == token.ADD {
							return true
						}
					}
				}
			}
		}
		var leaves []ast.Expr
		flatten(info, e, &leaves)
		hasConst := false
		for _, l := range leaves {
			if _, ok := isConstString(info, l); ok {
				hasConst = true
			}
		}
		if !hasConst {
			return true
		}
		var mark func(x ast.Expr)
		mark = func(x ast.Expr) {
			done[x] = true
			switch y := x.(type) {
			case *ast.ParenExpr:
				mark(y.X)
			case *ast.BinaryExpr:
				if y.Op == token.ADD {
					mark(y.X)
					mark(y.Y)
				}
			}
		}
		mark(e)
		t := &Template{Pos: e.Pos(), Expr: e, Func: fn, CasePath: casePath(info, stack)}
		c.classify(info, t, stack)
		// assemble rune stream
		var rs []rune
		seq := 0
		for _, l := range leaves {
			if s, ok := isConstString(info, l); ok {
				rs = append(rs, parseHoles(s, t.Dialect, &t.Holes, &seq)...)
			} else {
				t.Leaves = append(t.Leaves, l)
				t.Holes = append(t.Holes, Hole{Verb: 'x', Index: len(t.Leaves) - 1, Raw: types.ExprString(l)})
				rs = append(rs, rune(holeBase+len(t.Holes)-1))
			}
		}
		t.Text, _ = render(rs)
		t.Tokens = Lex(rs)
		c.Templates = append(c.Templates, t)
		return true
	})
}

// casePath renders the labels of enclosing case clauses.
func casePath(info *types.Info, stack []ast.Node) []string {
	var out []string
	for i, n := range stack {
		cc, ok := n.(*ast.CaseClause)
		if !ok {
			continue
		}
		// find the switch: stack[i-2] (switch -> body block -> clause)
		tag := ""
		if i >= 2 {
			switch sw := stack[i-2].(type) {
			case *ast.SwitchStmt:
				if sw.Tag != nil {
					tag = CanonTag(info, sw.Tag)
				}
			case *ast.TypeSwitchStmt:
				tag = "type"
			}
		}
		var labels []string
		for _, l := range cc.List {
			labels = append(labels, types.ExprString(l))
		}
		lab := strings.Join(labels, ",")
		if cc.List == nil {
			lab = "default"
		}
		if tag != "" {
			lab = tag + ":" + lab
		}
		out = append(out, lab)
	}
	return out
}

func (c *Corpus) classify(info *types.Info, t *Template, stack []ast.Node) {
	t.Role = RoleFragment
	t.Dialect = DialectFmt
	t.Why = "string constant in package compiler"
	e := stack[len(stack)-1]
	// climb through parens
	i := len(stack) - 2
	for i >= 0 {
		if _, ok := stack[i].(*ast.ParenExpr); ok {
			e = stack[i]
			i--
			continue
		}
		break
	}
	if i < 0 {
		return
	}
	switch p := stack[i].(type) {
	case *ast.CallExpr:
		argIdx := -1
		for k, a := range p.Args {
			if a == e {
				argIdx = k
			}
		}
		if argIdx < 0 {
			return
		}
		pkg, recv, name := calleeName(info, p)
		if spec, ok := sinkOf(pkg, recv, name); ok {
			if argIdx == spec.arg || (spec.all && argIdx >= spec.arg) {
				// Fprintf to a FatalError is a diagnostic
				if pkg == "fmt" && name == "Fprintf" {
					if tv, ok := info.Types[p.Args[0]]; ok && strings.Contains(tv.Type.String(), "FatalError") {
						t.Role, t.Why = RoleMessage, "diagnostic written into a FatalError"
						return
					}
				}
				t.Role, t.Sink, t.ArgIndex, t.Call, t.Dialect = RoleSink, name, argIdx, p, spec.dialect
				t.Why = "format argument of " + name
				// a Sprintf nested in a message call is itself a message
				for j := i - 1; j >= 0; j-- {
					if pc, ok := stack[j].(*ast.CallExpr); ok {
						pp, pr, pn := calleeName(info, pc)
						if messageCallee(pp, pr, pn) && !(pp == "strings" && pn == "Join") {
							t.Role, t.Why = RoleMessage, "nested in "+pn
							return
						}
					}
					if kv, ok := stack[j].(*ast.KeyValueExpr); ok {
						if id, ok := kv.Key.(*ast.Ident); ok && id.Name == "Msg" {
							t.Role, t.Why = RoleMessage, "types.Error message"
							return
						}
					}
					if _, ok := stack[j].(ast.Stmt); ok {
						break
					}
				}
				return
			}
			// non-format argument of a sink: a fragment spliced through %s
			t.Role, t.Why = RoleFragment, "argument of "+name
			t.Dialect = DialectRaw
			return
		}
		if messageCallee(pkg, recv, name) {
			t.Role, t.Why = RoleMessage, "argument of "+name
			return
		}
		t.Why = "argument of " + name
		if name == "newIdent" || name == "newVariable" || name == "newLocalVariable" {
			t.Dialect = DialectRaw
		}
	case *ast.CaseClause:
		t.Role, t.Why = RoleMessage, "case label"
	case *ast.BinaryExpr:
		if p.Op == token.EQL || p.Op == token.NEQ {
			t.Role, t.Why = RoleMessage, "comparison operand"
		}
	case *ast.IndexExpr:
		if p.Index == e {
			t.Role, t.Why = RoleMessage, "index/key"
		}
	case *ast.KeyValueExpr:
		if id, ok := p.Key.(*ast.Ident); ok && id.Name == "Msg" {
			t.Role, t.Why = RoleMessage, "types.Error message"
		}
	case *ast.CompositeLit:
		// keyword tables etc. are classified by the rules that use them
		t.Why = "composite literal element"
	}
}

// Describe renders a short human description.
func (t *Template) Describe() string {
	return fmt.Sprintf("%s %s %q", t.Func, strings.Join(t.CasePath, "/"), t.Text)
}

// CanonTag renders the tag expression of a switch with its root identifier replaced by "_" when that
// identifier is a local variable or parameter: case paths must not depend on the spelling of local names.
func CanonTag(info *types.Info, tag ast.Expr) string {
	root := tag
	for {
		switch x := root.(type) {
		case *ast.SelectorExpr:
			root = x.X
			continue
		case *ast.CallExpr:
			root = x.Fun
			continue
		case *ast.ParenExpr:
			root = x.X
			continue
		case *ast.IndexExpr:
			root = x.X
			continue
		}
		break
	}
	s := types.ExprString(tag)
	id, ok := root.(*ast.Ident)
	if !ok {
		return s
	}
	v, isVar := info.ObjectOf(id).(*types.Var)
	if !isVar || v.IsField() || v.Parent() == nil || (v.Pkg() != nil && v.Parent() == v.Pkg().Scope()) {
		return s
	}
	if strings.HasPrefix(s, id.Name) {
		return "_" + s[len(id.Name):]
	}
	return s
}
