// Package tmpl builds the corpus of JavaScript templates the compiler emits
// (format strings and string fragments of package compiler) and tokenises them
// as JavaScript with holes.
package tmpl

import (
	"fmt"
	"strings"
	"unicode"
)

type TokKind int

const (
	TIdent   TokKind = iota // identifier or keyword, no holes
	TPattern                // identifier glued to one or more holes, e.g. $%sType, %s_
	THole                   // a lone hole
	TNum
	TStr // string literal (may contain holes)
	TPunct
	TComment
	TErr // lexical error (unterminated string/comment, single-quoted string...)
)

func (k TokKind) String() string {
	return [...]string{"ident", "pattern", "hole", "num", "str", "punct", "comment", "err"}[k]
}

// Hole describes one placeholder of a template.
type Hole struct {
	Verb  byte // e f h l r i s d t v q ... ; 'x' = opaque non-constant concat operand
	Index int  // 0-based argument index; -1 for opaque
	Raw   string
}

type Token struct {
	Kind        TokKind
	Text        string // holes rendered as ⟨n⟩
	Holes       []int  // indices into Template.Holes
	Off         int    // rune offset
	SpaceBefore bool
	NLBefore    bool
	Err         string
}

const holeBase = 0xE000

func isHoleRune(r rune) bool { return r >= holeBase && r < holeBase+0x800 }

func isIdentStart(r rune) bool {
	return r == '$' || r == '_' || unicode.IsLetter(r) || r == '·' || isHoleRune(r)
}

func isIdentPart(r rune) bool { return isIdentStart(r) || unicode.IsDigit(r) }

// Dialect of format verbs.
type Dialect int

const (
	DialectFmt  Dialect = iota // package fmt
	DialectExpr                // formatExpr's %1e style
	DialectRaw                 // no verbs at all (PrintCond operands)
)

// parseHoles replaces verbs in s by hole runes. Returns rune slice and holes.
func parseHoles(s string, d Dialect, holes *[]Hole, seq *int) []rune {
	var out []rune
	rs := []rune(s)
	for i := 0; i < len(rs); i++ {
		r := rs[i]
		if r != '%' || d == DialectRaw {
			out = append(out, r)
			continue
		}
		// try to parse a verb
		j := i + 1
		if j >= len(rs) {
			out = append(out, r)
			continue
		}
		if rs[j] == '%' {
			out = append(out, '%')
			i = j
			continue
		}
		idx := -1
		if d == DialectExpr {
			if rs[j] >= '0' && rs[j] <= '9' {
				idx = int(rs[j]-'0') - 1
				j++
			}
			if j < len(rs) && strings.ContainsRune("efhlrisdt", rs[j]) {
				if idx < 0 {
					idx = *seq
				}
				*seq = idx + 1
				*holes = append(*holes, Hole{Verb: byte(rs[j]), Index: idx, Raw: string(rs[i : j+1])})
				out = append(out, rune(holeBase+len(*holes)-1))
				i = j
				continue
			}
			out = append(out, r)
			continue
		}
		// fmt dialect: %[n]verb, flags, width, precision
		k := j
		if k < len(rs) && rs[k] == '[' {
			e := k + 1
			n := 0
			for e < len(rs) && rs[e] >= '0' && rs[e] <= '9' {
				n = n*10 + int(rs[e]-'0')
				e++
			}
			if e < len(rs) && rs[e] == ']' && e > k+1 {
				idx = n - 1
				k = e + 1
			}
		}
		for k < len(rs) && strings.ContainsRune("+-#0", rs[k]) {
			k++
		}
		for k < len(rs) && rs[k] >= '0' && rs[k] <= '9' {
			k++
		}
		if k < len(rs) && rs[k] == '.' {
			k++
			for k < len(rs) && rs[k] >= '0' && rs[k] <= '9' {
				k++
			}
		}
		if k < len(rs) && rs[k] == '[' {
			e := k + 1
			n := 0
			for e < len(rs) && rs[e] >= '0' && rs[e] <= '9' {
				n = n*10 + int(rs[e]-'0')
				e++
			}
			if e < len(rs) && rs[e] == ']' && e > k+1 {
				idx = n - 1
				k = e + 1
			}
		}
		if k < len(rs) && strings.ContainsRune("vTtbcdoOqxXUeEfFgGsp", rs[k]) {
			if idx < 0 {
				idx = *seq
			}
			*seq = idx + 1
			*holes = append(*holes, Hole{Verb: byte(rs[k]), Index: idx, Raw: string(rs[i : k+1])})
			out = append(out, rune(holeBase+len(*holes)-1))
			i = k
			continue
		}
		out = append(out, r)
	}
	return out
}

func render(rs []rune) (string, []int) {
	var sb strings.Builder
	var hs []int
	for _, r := range rs {
		if isHoleRune(r) {
			fmt.Fprintf(&sb, "⟨%d⟩", int(r-holeBase))
			hs = append(hs, int(r-holeBase))
		} else {
			sb.WriteRune(r)
		}
	}
	return sb.String(), hs
}

var puncts = []string{
	">>>=", "...", "===", "!==", "**=", "<<=", ">>=", ">>>", "&&=", "||=", "??=",
	"=>", "==", "!=", "<=", ">=", "&&", "||", "??", "?.", "++", "--", "+=", "-=", "*=", "/=", "%=", "&=", "|=", "^=", "<<", ">>", "**",
}

// Lex tokenises a rune stream (with hole runes) as JavaScript.
func Lex(rs []rune) []Token {
	var toks []Token
	i := 0
	space, nl := false, false
	emit := func(k TokKind, from, to int, errMsg string) {
		text, hs := render(rs[from:to])
		toks = append(toks, Token{Kind: k, Text: text, Holes: hs, Off: from, SpaceBefore: space, NLBefore: nl, Err: errMsg})
		space, nl = false, false
	}
	for i < len(rs) {
		r := rs[i]
		switch {
		case r == '\n':
			nl, space = true, true
			i++
		case r == ' ' || r == '\t' || r == '\r':
			space = true
			i++
		case r == '/' && i+1 < len(rs) && rs[i+1] == '*':
			j := i + 2
			closed := false
			for j+1 < len(rs) {
				if rs[j] == '*' && rs[j+1] == '/' {
					closed = true
					break
				}
				j++
			}
			if !closed {
				emit(TErr, i, len(rs), "unterminated /* comment")
				i = len(rs)
			} else {
				emit(TComment, i, j+2, "")
				i = j + 2
			}
		case r == '/' && i+1 < len(rs) && rs[i+1] == '/':
			j := i
			for j < len(rs) && rs[j] != '\n' {
				j++
			}
			emit(TErr, i, j, "// line comment")
			i = j
		case r == '"' || r == '\'' || r == '`':
			j := i + 1
			closed := false
			for j < len(rs) {
				if rs[j] == '\\' {
					j += 2
					continue
				}
				if rs[j] == r {
					closed = true
					break
				}
				if rs[j] == '\n' && r != '`' {
					break
				}
				j++
			}
			if !closed {
				if j > len(rs) {
					j = len(rs)
				}
				emit(TErr, i, j, "unterminated string literal")
				i = j
			} else {
				if r != '"' {
					emit(TErr, i, j+1, "non double-quoted string literal")
				} else {
					emit(TStr, i, j+1, "")
				}
				i = j + 1
			}
		case unicode.IsDigit(r) || (r == '.' && i+1 < len(rs) && unicode.IsDigit(rs[i+1])):
			j := i
			for j < len(rs) && (unicode.IsDigit(rs[j]) || unicode.IsLetter(rs[j]) || rs[j] == '.' || rs[j] == '_') {
				j++
			}
			emit(TNum, i, j, "")
			i = j
		case isIdentStart(r):
			j := i
			hasHole, onlyHole := false, true
			for j < len(rs) && isIdentPart(rs[j]) {
				if isHoleRune(rs[j]) {
					hasHole = true
				} else {
					onlyHole = false
				}
				j++
			}
			switch {
			case hasHole && onlyHole && j-i == 1:
				emit(THole, i, j, "")
			case hasHole:
				emit(TPattern, i, j, "")
			default:
				emit(TIdent, i, j, "")
			}
			i = j
		default:
			matched := false
			for _, p := range puncts {
				pr := []rune(p)
				if i+len(pr) <= len(rs) && string(rs[i:i+len(pr)]) == p {
					emit(TPunct, i, i+len(pr), "")
					i += len(pr)
					matched = true
					break
				}
			}
			if !matched {
				if r == '\\' || r == '#' || r == '@' || r < 0x20 {
					emit(TErr, i, i+1, fmt.Sprintf("stray character %q", r))
				} else {
					emit(TPunct, i, i+1, "")
				}
				i++
			}
		}
	}
	return toks
}
