package ctx

import (
	"bytes"
	"encoding/json"
	"fmt"
	"os/exec"
	"path/filepath"
	"sort"
	"strings"
)

// JSNode is a generic ESTree node (acorn output).
type JSNode struct {
	Type   string
	Start  int
	End    int
	Line   int
	F      map[string]any // scalar fields and child nodes (*JSNode / []*JSNode)
	Parent *JSNode
	PKey   string // field of parent holding this node
	File   *JSFile
}

type JSFile struct {
	Name   string // repo-relative
	Source string
	AST    *JSNode
	Error  string
}

// PreludeFiles in concatenation order (compiler/prelude/prelude.go).
var PreludeFiles = []string{"prelude.js", "numeric.js", "types.js", "goroutines.js", "jsmapping.js"}

func convJS(v any, parent *JSNode, key string, file *JSFile) any {
	switch x := v.(type) {
	case map[string]any:
		if t, ok := x["type"].(string); ok {
			if _, hasStart := x["start"]; hasStart {
				n := &JSNode{Type: t, F: map[string]any{}, Parent: parent, PKey: key, File: file}
				if f, ok := x["start"].(float64); ok {
					n.Start = int(f)
				}
				if f, ok := x["end"].(float64); ok {
					n.End = int(f)
				}
				if loc, ok := x["loc"].(map[string]any); ok {
					if st, ok := loc["start"].(map[string]any); ok {
						if l, ok := st["line"].(float64); ok {
							n.Line = int(l)
						}
					}
				}
				for k, val := range x {
					if k == "type" || k == "start" || k == "end" || k == "loc" {
						continue
					}
					n.F[k] = convJS(val, n, k, file)
				}
				return n
			}
		}
		return x
	case []any:
		allNodes := true
		out := make([]*JSNode, 0, len(x))
		for _, e := range x {
			c := convJS(e, parent, key, file)
			if cn, ok := c.(*JSNode); ok {
				out = append(out, cn)
			} else if c == nil {
				out = append(out, nil)
			} else {
				allNodes = false
			}
		}
		if allNodes {
			return out
		}
		return x
	}
	return v
}

// N returns a child node.
func (n *JSNode) N(k string) *JSNode {
	if n == nil {
		return nil
	}
	c, _ := n.F[k].(*JSNode)
	return c
}

// L returns a child list.
func (n *JSNode) L(k string) []*JSNode {
	if n == nil {
		return nil
	}
	c, _ := n.F[k].([]*JSNode)
	return c
}

// S returns a string field.
func (n *JSNode) S(k string) string {
	if n == nil {
		return ""
	}
	s, _ := n.F[k].(string)
	return s
}

// B returns a bool field.
func (n *JSNode) B(k string) bool {
	if n == nil {
		return false
	}
	b, _ := n.F[k].(bool)
	return b
}

// Src returns the source text.
func (n *JSNode) Src() string {
	if n == nil {
		return ""
	}
	return n.File.Source[n.Start:n.End]
}

func (n *JSNode) Pos() string {
	if n == nil {
		return "-"
	}
	return fmt.Sprintf("%s:%d", n.File.Name, n.Line)
}

// Is reports the node type.
func (n *JSNode) Is(t ...string) bool {
	if n == nil {
		return false
	}
	for _, x := range t {
		if n.Type == x {
			return true
		}
	}
	return false
}

// Children returns the child nodes in source order.
func (n *JSNode) Children() []*JSNode {
	var out []*JSNode
	for _, v := range n.F {
		switch x := v.(type) {
		case *JSNode:
			out = append(out, x)
		case []*JSNode:
			for _, c := range x {
				if c != nil {
					out = append(out, c)
				}
			}
		}
	}
	sort.SliceStable(out, func(i, j int) bool {
		if out[i].Start != out[j].Start {
			return out[i].Start < out[j].Start
		}
		return out[i].End > out[j].End
	})
	return out
}

// Walk visits n and its descendants pre-order; f returns false to prune.
func (n *JSNode) Walk(f func(*JSNode) bool) {
	if n == nil {
		return
	}
	if !f(n) {
		return
	}
	for _, c := range n.Children() {
		c.Walk(f)
	}
}

// IsFunc reports whether n is a function node.
func (n *JSNode) IsFunc() bool {
	return n.Is("FunctionDeclaration", "FunctionExpression", "ArrowFunctionExpression")
}

// EnclosingFunc returns the nearest enclosing function node, or nil.
func (n *JSNode) EnclosingFunc() *JSNode {
	for p := n.Parent; p != nil; p = p.Parent {
		if p.IsFunc() {
			return p
		}
	}
	return nil
}

// IdentName returns the name if n is an Identifier.
func (n *JSNode) IdentName() string {
	if n.Is("Identifier") {
		return n.S("name")
	}
	return ""
}

// MemberName returns the static property name of a MemberExpression
// (x.name or x["name"]); "" if computed dynamically.
func (n *JSNode) MemberName() string {
	if !n.Is("MemberExpression") {
		return ""
	}
	p := n.N("property")
	if !n.B("computed") {
		return p.IdentName()
	}
	if p.Is("Literal") {
		if s, ok := p.F["value"].(string); ok {
			return s
		}
	}
	return ""
}

// NumValue returns the numeric value of a numeric Literal.
func (n *JSNode) NumValue() (float64, bool) {
	if n.Is("Literal") {
		if f, ok := n.F["value"].(float64); ok {
			return f, true
		}
	}
	return 0, false
}

// StrValue returns the value of a string Literal.
func (n *JSNode) StrValue() (string, bool) {
	if n.Is("Literal") {
		if s, ok := n.F["value"].(string); ok {
			return s, true
		}
	}
	return "", false
}

// ---------------------------------------------------------------------------

// ParseJS parses JS sources with acorn (through node; parse only).
func (c *Ctx) ParseJS(files map[string]string) (map[string]*JSFile, error) {
	type reqFile struct {
		Name   string `json:"name"`
		Source string `json:"source"`
	}
	var names []string
	for k := range files {
		names = append(names, k)
	}
	sort.Strings(names)
	req := struct {
		Files []reqFile `json:"files"`
	}{}
	for _, n := range names {
		req.Files = append(req.Files, reqFile{n, files[n]})
	}
	in, _ := json.Marshal(req)
	cmd := exec.Command("node", "--expose-internals", filepath.Join(c.Verif, "js", "extract.js"))
	cmd.Stdin = bytes.NewReader(in)
	var stderr bytes.Buffer
	cmd.Stderr = &stderr
	out, err := cmd.Output()
	if err != nil {
		return nil, fmt.Errorf("node extract.js: %v: %s", err, stderr.String())
	}
	var resp struct {
		Files []struct {
			Name  string `json:"name"`
			AST   any    `json:"ast"`
			Error string `json:"error"`
		} `json:"files"`
	}
	if err := json.Unmarshal(out, &resp); err != nil {
		return nil, fmt.Errorf("extract.js output: %v", err)
	}
	res := map[string]*JSFile{}
	for _, f := range resp.Files {
		jf := &JSFile{Name: f.Name, Source: files[f.Name], Error: f.Error}
		if f.AST != nil {
			if n, ok := convJS(f.AST, nil, "", jf).(*JSNode); ok {
				jf.AST = n
			}
		}
		res[f.Name] = jf
	}
	return res, nil
}

// Prelude returns the parsed prelude files keyed by repo-relative path.
func (c *Ctx) Prelude() (map[string]*JSFile, error) {
	c.jsOnce.Do(func() {
		files := map[string]string{}
		for _, n := range PreludeFiles {
			rel := "compiler/prelude/" + n
			b, err := c.ReadFile(rel)
			if err != nil {
				c.jsErr = err
				return
			}
			files[rel] = string(b)
		}
		c.js, c.jsErr = c.ParseJS(files)
		if c.jsErr == nil {
			for _, f := range c.js {
				if f.Error != "" || f.AST == nil {
					c.jsErr = fmt.Errorf("%s does not parse as JavaScript: %s", f.Name, f.Error)
				}
			}
		}
	})
	return c.js, c.jsErr
}

// PreludeList returns prelude files in concatenation order.
func (c *Ctx) PreludeList() []*JSFile {
	var out []*JSFile
	for _, n := range PreludeFiles {
		if f := c.js["compiler/prelude/"+n]; f != nil {
			out = append(out, f)
		}
	}
	return out
}

// ---------------------------------------------------------------------------
// Scope analysis

// JSDecl is a top-level declaration of the prelude.
type JSDecl struct {
	Name string
	Kind string // var, let, const, function
	Node *JSNode
	Init *JSNode // initialiser (may be nil)
}

// patternNames collects identifiers bound by a binding pattern.
func patternNames(p *JSNode, out *[]string) {
	if p == nil {
		return
	}
	switch p.Type {
	case "Identifier":
		*out = append(*out, p.S("name"))
	case "ObjectPattern":
		for _, pr := range p.L("properties") {
			if pr.Is("RestElement") {
				patternNames(pr.N("argument"), out)
			} else {
				patternNames(pr.N("value"), out)
			}
		}
	case "ArrayPattern":
		for _, e := range p.L("elements") {
			patternNames(e, out)
		}
	case "RestElement":
		patternNames(p.N("argument"), out)
	case "AssignmentPattern":
		patternNames(p.N("left"), out)
	}
}

// scopeDecls returns names declared directly in the scope rooted at n
// (a function or Program): params, hoisted var, function declarations, and
// (approximating block scope by function scope) let/const/class/catch params.
func scopeDecls(n *JSNode) map[string]bool {
	d := map[string]bool{}
	if n.IsFunc() {
		var ps []string
		for _, p := range n.L("params") {
			patternNames(p, &ps)
		}
		for _, p := range ps {
			d[p] = true
		}
		if id := n.N("id"); id != nil && n.Is("FunctionExpression") {
			d[id.S("name")] = true
		}
		if !n.Is("ArrowFunctionExpression") {
			d["arguments"] = true
		}
	}
	var visit func(x *JSNode)
	visit = func(x *JSNode) {
		for _, c := range x.Children() {
			switch c.Type {
			case "FunctionDeclaration":
				if id := c.N("id"); id != nil {
					d[id.S("name")] = true
				}
				continue
			case "FunctionExpression", "ArrowFunctionExpression":
				continue
			case "VariableDeclaration":
				for _, dec := range c.L("declarations") {
					var ns []string
					patternNames(dec.N("id"), &ns)
					for _, nm := range ns {
						d[nm] = true
					}
				}
			case "ClassDeclaration":
				if id := c.N("id"); id != nil {
					d[id.S("name")] = true
				}
			case "CatchClause":
				var ns []string
				patternNames(c.N("param"), &ns)
				for _, nm := range ns {
					d[nm] = true
				}
			}
			visit(c)
		}
	}
	body := n
	visit(body)
	return d
}

// IsRefIdent reports whether the Identifier node is a variable reference (not
// a property name, label, or declaration-only position).
func (n *JSNode) IsRefIdent() bool {
	if !n.Is("Identifier") || n.Parent == nil {
		return false
	}
	p := n.Parent
	switch p.Type {
	case "MemberExpression":
		if n.PKey == "property" && !p.B("computed") {
			return false
		}
	case "Property":
		if n.PKey == "key" && !p.B("computed") {
			// shorthand {k} has key==value identity; value node is separate in acorn
			return false
		}
	case "MethodDefinition", "PropertyDefinition":
		if n.PKey == "key" && !p.B("computed") {
			return false
		}
	case "LabeledStatement", "BreakStatement", "ContinueStatement":
		return false
	case "FunctionDeclaration", "FunctionExpression", "ClassDeclaration", "ClassExpression":
		if n.PKey == "id" {
			return false
		}
	}
	return true
}

// FreeIdent is an identifier reference not resolved inside its file-level
// scopes (only function scopes below Program are considered: top level is global).
type FreeIdent struct {
	Name string
	Node *JSNode
	Func *JSNode // enclosing function (nil at top level)
}

// FreeIdents returns references that do not resolve to an enclosing *function*
// scope of root. Top-level (Program) declarations are returned separately by TopDecls.
func FreeIdents(root *JSNode) []FreeIdent {
	var out []FreeIdent
	cache := map[*JSNode]map[string]bool{}
	var rec func(n *JSNode, scopes []map[string]bool, fn *JSNode)
	rec = func(n *JSNode, scopes []map[string]bool, fn *JSNode) {
		if n.IsFunc() || n.Is("Program") {
			d, ok := cache[n]
			if !ok {
				d = scopeDecls(n)
				cache[n] = d
			}
			scopes = append(scopes[:len(scopes):len(scopes)], d)
			if n.IsFunc() {
				fn = n
			}
		}
		if n.Is("Identifier") && n.IsRefIdent() {
			name := n.S("name")
			found := false
			for i := len(scopes) - 1; i >= 0; i-- {
				if scopes[i][name] {
					found = true
					break
				}
			}
			if !found {
				out = append(out, FreeIdent{name, n, fn})
			}
		}
		for _, c := range n.Children() {
			rec(c, scopes, fn)
		}
	}
	rec(root, nil, nil)
	return out
}

// TopDecls lists the declarations at Program level of a file (hoisted vars in
// top-level blocks included).
func TopDecls(f *JSFile) []JSDecl {
	var out []JSDecl
	var visit func(x *JSNode)
	visit = func(x *JSNode) {
		for _, c := range x.Children() {
			switch c.Type {
			case "FunctionDeclaration":
				if id := c.N("id"); id != nil {
					out = append(out, JSDecl{id.S("name"), "function", c, c})
				}
				continue
			case "FunctionExpression", "ArrowFunctionExpression":
				continue
			case "VariableDeclaration":
				for _, dec := range c.L("declarations") {
					var ns []string
					patternNames(dec.N("id"), &ns)
					for _, nm := range ns {
						out = append(out, JSDecl{nm, c.S("kind"), dec, dec.N("init")})
					}
				}
			}
			visit(c)
		}
	}
	visit(f.AST)
	return out
}

// PreludeDecls returns all top-level declarations across the prelude keyed by name.
func (c *Ctx) PreludeDecls() map[string][]JSDecl {
	m := map[string][]JSDecl{}
	for _, f := range c.PreludeList() {
		for _, d := range TopDecls(f) {
			m[d.Name] = append(m[d.Name], d)
		}
	}
	return m
}

// PreludeFunc returns the function node bound to a top-level prelude name
// (var $f = (..) => {...} / function / function expression), following a
// `A || (fallback)` initialiser to the fallback function.
func (c *Ctx) PreludeFunc(name string) *JSNode {
	for _, d := range c.PreludeDecls()[name] {
		if fn := funcOf(d.Init); fn != nil {
			return fn
		}
	}
	// assigned later at top level: $x = function...
	for _, f := range c.PreludeList() {
		var found *JSNode
		f.AST.Walk(func(n *JSNode) bool {
			if found != nil {
				return false
			}
			if n.Is("AssignmentExpression") && n.N("left").IdentName() == name {
				if fn := funcOf(n.N("right")); fn != nil {
					found = fn
				}
			}
			return true
		})
		if found != nil {
			return found
		}
	}
	return nil
}

func funcOf(n *JSNode) *JSNode {
	if n == nil {
		return nil
	}
	if n.IsFunc() {
		return n
	}
	if n.Is("LogicalExpression") {
		if f := funcOf(n.N("right")); f != nil {
			return f
		}
		return funcOf(n.N("left"))
	}
	if n.Is("ParenthesizedExpression") {
		return funcOf(n.N("expression"))
	}
	return nil
}

// JSFuncName gives a readable name for a function node.
func JSFuncName(fn *JSNode) string {
	if fn == nil {
		return "<top>"
	}
	var parts []string
	for x := fn; x != nil; x = x.EnclosingFunc() {
		parts = append([]string{jsFuncLocalName(x)}, parts...)
	}
	return strings.Join(parts, "/")
}

func jsFuncLocalName(fn *JSNode) string {
	if id := fn.N("id"); id != nil {
		return id.S("name")
	}
	p := fn.Parent
	for p != nil && p.Is("LogicalExpression", "ParenthesizedExpression") {
		p = p.Parent
	}
	if p != nil {
		switch p.Type {
		case "VariableDeclarator":
			return p.N("id").IdentName()
		case "AssignmentExpression":
			return strings.ReplaceAll(p.N("left").Src(), " ", "")
		case "Property":
			return p.N("key").Src()
		case "CallExpression", "NewExpression":
			callee := p.N("callee")
			if callee != fn {
				return "arg:" + strings.ReplaceAll(callee.Src(), " ", "")
			}
			return "iife"
		}
	}
	return "anon"
}
