package ctx

// Alpha-normalisation of local names against the reference tree.
//
// Many obligations are stated over the printed form of a statement or compare the
// spelling of a local variable. A behaviour-preserving renaming of a parameter or
// local variable must not change any verdict, so after loading, every function of the
// module whose list of local variables (parameters, results, locals, in order of
// declaration) has the same length as on the reference tree gets its locals renamed —
// in the syntax trees held in memory only — to the names recorded for the reference
// tree in reference_locals.json. This is a consistent renaming of bound variables
// (an alpha-conversion): the analysed program is equivalent to the one on disk.
// Receivers are left alone; functions whose number of locals changed are left alone.

import (
	"encoding/json"
	"go/ast"
	"go/types"
	"os"
	"path/filepath"
	"sort"

	"golang.org/x/tools/go/packages"
)

// localIdents lists, per function, the local variables in declaration order with all their identifiers.
type localVar struct {
	name   string
	idents []*ast.Ident
}

func funcLocals(p *packages.Package, fd *ast.FuncDecl) []*localVar {
	info := p.TypesInfo
	byObj := map[types.Object]*localVar{}
	var order []*localVar
	inRecv := func(id *ast.Ident) bool {
		return fd.Recv != nil && id.Pos() >= fd.Recv.Pos() && id.Pos() < fd.Recv.End()
	}
	isLocal := func(obj types.Object) bool {
		v, ok := obj.(*types.Var)
		if !ok || v.IsField() || v.Pkg() != p.Types || v.Parent() == nil || v.Parent() == p.Types.Scope() {
			return false
		}
		return v.Pos() >= fd.Pos() && v.Pos() < fd.End()
	}
	// type-switch symbolic variables: one implicit object per clause, all spelled alike
	symbolic := map[*ast.Ident]*localVar{}
	ast.Inspect(fd, func(n ast.Node) bool {
		if ts, ok := n.(*ast.TypeSwitchStmt); ok {
			if as, ok := ts.Assign.(*ast.AssignStmt); ok && len(as.Lhs) == 1 {
				if id, ok := as.Lhs[0].(*ast.Ident); ok && id.Name != "_" {
					lv := &localVar{name: id.Name, idents: []*ast.Ident{id}}
					symbolic[id] = lv
					for _, st := range ts.Body.List {
						if obj := info.Implicits[st]; obj != nil {
							byObj[obj] = lv
						}
					}
				}
			}
		}
		return true
	})
	var ids []*ast.Ident
	ast.Inspect(fd, func(n ast.Node) bool {
		if id, ok := n.(*ast.Ident); ok && id.Name != "_" {
			ids = append(ids, id)
		}
		return true
	})
	sort.Slice(ids, func(i, j int) bool { return ids[i].Pos() < ids[j].Pos() })
	for _, id := range ids {
		if lv, ok := symbolic[id]; ok {
			order = append(order, lv)
			continue
		}
		if obj := info.Defs[id]; obj != nil && isLocal(obj) && !inRecv(id) {
			lv := &localVar{name: id.Name, idents: []*ast.Ident{id}}
			byObj[obj] = lv
			order = append(order, lv)
			continue
		}
		if obj := info.Uses[id]; obj != nil {
			if lv, ok := byObj[obj]; ok {
				lv.idents = append(lv.idents, id)
			}
		}
	}
	return order
}

// forEachFunc visits the function declarations of the module's packages.
func (c *Ctx) forEachFunc(f func(key string, p *packages.Package, fd *ast.FuncDecl)) {
	for _, p := range c.ModulePkgs() {
		rel := RelPkg(p.PkgPath)
		for _, file := range p.Syntax {
			if c.IsTestFile(file.Pos()) {
				continue
			}
			for _, d := range file.Decls {
				if fd, ok := d.(*ast.FuncDecl); ok && fd.Body != nil {
					f(rel+"|"+FuncName(fd), p, fd)
				}
			}
		}
	}
}

// DumpLocals returns the reference table: function key -> names of the locals in declaration order.
func (c *Ctx) DumpLocals() map[string][]string {
	out := map[string][]string{}
	c.forEachFunc(func(key string, p *packages.Package, fd *ast.FuncDecl) {
		var names []string
		for _, lv := range funcLocals(p, fd) {
			names = append(names, lv.name)
		}
		if _, dup := out[key]; dup {
			out[key] = nil // several functions share the key (init, _): not normalised
			return
		}
		out[key] = names
	})
	return out
}

// alphaNormalise renames locals to their reference names; returns the number of renamed variables.
func (c *Ctx) alphaNormalise() int {
	b, err := os.ReadFile(filepath.Join(c.Verif, "reference_locals.json"))
	if err != nil {
		return 0
	}
	ref := map[string][]string{}
	if json.Unmarshal(b, &ref) != nil {
		return 0
	}
	seen := map[string]int{}
	c.forEachFunc(func(key string, p *packages.Package, fd *ast.FuncDecl) { seen[key]++ })
	n := 0
	c.forEachFunc(func(key string, p *packages.Package, fd *ast.FuncDecl) {
		names, ok := ref[key]
		if !ok || names == nil || seen[key] != 1 {
			return
		}
		locals := funcLocals(p, fd)
		if len(locals) != len(names) {
			return
		}
		for i, lv := range locals {
			if lv.name != names[i] {
				for _, id := range lv.idents {
					id.Name = names[i]
				}
				n++
			}
		}
	})
	return n
}
