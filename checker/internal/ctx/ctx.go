// Package ctx loads what the rules analyse: the typed syntax of every package
// of the gopherjs module, the prelude JavaScript files (parsed by acorn, no
// code is run) and the natives overlay (go/parser only).
package ctx

import (
	"fmt"
	"go/ast"
	"go/token"
	"go/types"
	"os"
	"path/filepath"
	"sort"
	"strings"
	"sync"

	"golang.org/x/tools/go/packages"
)

const Module = "github.com/gopherjs/gopherjs"

type Ctx struct {
	NoAlpha bool // do not alpha-normalise local names (used when dumping the reference table)
	Renamed int  // number of local variables renamed to their reference names
	Repo    string
	Verif   string
	Tier    string
	Overlay map[string][]byte // absolute path -> replacement content (mutation self-test)

	loadOnce sync.Once
	loadErr  error
	Fset     *token.FileSet
	Roots    []*packages.Package
	All      map[string]*packages.Package

	jsOnce sync.Once
	jsErr  error
	js     map[string]*JSFile

	natOnce sync.Once
	nat     *Natives
}

func New(repo, verif, tier string) *Ctx {
	return &Ctx{Repo: repo, Verif: verif, Tier: tier, Overlay: map[string][]byte{}}
}

// ReadFile reads a repo-relative file, honouring the overlay.
func (c *Ctx) ReadFile(rel string) ([]byte, error) {
	p := filepath.Join(c.Repo, rel)
	if b, ok := c.Overlay[p]; ok {
		return b, nil
	}
	return os.ReadFile(p)
}

// Load type-checks every package of the module from source.
func (c *Ctx) Load() error {
	c.loadOnce.Do(func() {
		env := []string{}
		for _, e := range os.Environ() {
			if strings.HasPrefix(e, "GOWORK=") || strings.HasPrefix(e, "GOFLAGS=") || strings.HasPrefix(e, "GOPROXY=") || strings.HasPrefix(e, "GOOS=") || strings.HasPrefix(e, "GOARCH=") {
				continue
			}
			env = append(env, e)
		}
		env = append(env, "GOWORK=off", "GOFLAGS=-mod=mod", "GOPROXY=off", "GOSUMDB=off", "GOTOOLCHAIN=local")
		c.Fset = token.NewFileSet()
		cfg := &packages.Config{
			Mode:    packages.LoadAllSyntax,
			Dir:     c.Repo,
			Env:     env,
			Fset:    c.Fset,
			Overlay: c.Overlay,
		}
		pkgs, err := packages.Load(cfg, "./...")
		if err != nil {
			c.loadErr = err
			return
		}
		c.Roots = pkgs
		c.All = map[string]*packages.Package{}
		var errs []string
		packages.Visit(pkgs, nil, func(p *packages.Package) {
			c.All[p.PkgPath] = p
			for _, e := range p.Errors {
				errs = append(errs, p.PkgPath+": "+e.Error())
			}
		})
		if len(errs) > 0 {
			c.loadErr = fmt.Errorf("type-check/load errors: %s", strings.Join(errs, "; "))
			return
		}
		if len(pkgs) < 30 {
			c.loadErr = fmt.Errorf("only %d root packages loaded (expected >= 30)", len(pkgs))
		}
		if !c.NoAlpha {
			c.Renamed = c.alphaNormalise()
		}
	})
	return c.loadErr
}

// Pkg returns a module package by its path relative to the module ("" = root).
func (c *Ctx) Pkg(rel string) *packages.Package {
	p := Module
	if rel != "" {
		p += "/" + rel
	}
	return c.All[p]
}

// Pos renders a position repo-relative.
func (c *Ctx) Pos(p token.Pos) string {
	if !p.IsValid() {
		return "-"
	}
	pos := c.Fset.Position(p)
	rel, err := filepath.Rel(c.Repo, pos.Filename)
	if err != nil {
		rel = pos.Filename
	}
	return fmt.Sprintf("%s:%d", rel, pos.Line)
}

// IsTestFile reports whether the file of pos ends in _test.go.
func (c *Ctx) IsTestFile(p token.Pos) bool {
	return strings.HasSuffix(c.Fset.Position(p).Filename, "_test.go")
}

// FuncDecl finds a function declaration. name is "F" or "T.M" (receiver base
// type name, pointer or not).
func (c *Ctx) FuncDecl(pkgRel, name string) *ast.FuncDecl {
	p := c.Pkg(pkgRel)
	if p == nil {
		return nil
	}
	for _, f := range p.Syntax {
		for _, d := range f.Decls {
			fd, ok := d.(*ast.FuncDecl)
			if !ok {
				continue
			}
			if FuncName(fd) == name {
				return fd
			}
		}
	}
	return nil
}

// FuncName renders "F" or "T.M".
func FuncName(fd *ast.FuncDecl) string {
	if fd.Recv == nil || len(fd.Recv.List) == 0 {
		return fd.Name.Name
	}
	t := fd.Recv.List[0].Type
	for {
		switch x := t.(type) {
		case *ast.StarExpr:
			t = x.X
			continue
		case *ast.ParenExpr:
			t = x.X
			continue
		case *ast.IndexExpr:
			t = x.X
			continue
		case *ast.IndexListExpr:
			t = x.X
			continue
		}
		break
	}
	if id, ok := t.(*ast.Ident); ok {
		return id.Name + "." + fd.Name.Name
	}
	return "?." + fd.Name.Name
}

// FuncObj finds the *types.Func for pkgRel + "F" / "T.M".
func (c *Ctx) FuncObj(pkgRel, name string) *types.Func {
	fd := c.FuncDecl(pkgRel, name)
	if fd == nil {
		return nil
	}
	p := c.Pkg(pkgRel)
	if o, ok := p.TypesInfo.Defs[fd.Name].(*types.Func); ok {
		return o
	}
	return nil
}

// AllFuncDecls lists every FuncDecl of non-test files of a module package.
func (c *Ctx) AllFuncDecls(pkgRel string) []*ast.FuncDecl {
	p := c.Pkg(pkgRel)
	if p == nil {
		return nil
	}
	var out []*ast.FuncDecl
	for _, f := range p.Syntax {
		if c.IsTestFile(f.Pos()) {
			continue
		}
		for _, d := range f.Decls {
			if fd, ok := d.(*ast.FuncDecl); ok {
				out = append(out, fd)
			}
		}
	}
	return out
}

// ModulePkgs returns the module's packages (non-test) sorted by path, filtered by prefix rel paths.
func (c *Ctx) ModulePkgs(prefixes ...string) []*packages.Package {
	var out []*packages.Package
	for path, p := range c.All {
		if path != Module && !strings.HasPrefix(path, Module+"/") {
			continue
		}
		rel := strings.TrimPrefix(strings.TrimPrefix(path, Module), "/")
		if len(prefixes) == 0 {
			out = append(out, p)
			continue
		}
		for _, pre := range prefixes {
			if rel == pre || strings.HasPrefix(rel, pre+"/") {
				out = append(out, p)
				break
			}
		}
	}
	sort.Slice(out, func(i, j int) bool { return out[i].PkgPath < out[j].PkgPath })
	return out
}

// RelPkg returns the module-relative path of a package path.
func RelPkg(path string) string {
	return strings.TrimPrefix(strings.TrimPrefix(path, Module), "/")
}
