package ctx

import (
	"go/ast"
	"go/parser"
	"go/token"
	"io/fs"
	"os"
	"path/filepath"
	"sort"
	"strings"
)

// NativeFile is one overlay source file, parsed only (the overlays target the
// Go 1.20 standard library and cannot be type-checked against this GOROOT).
type NativeFile struct {
	Rel  string // repo-relative path
	Pkg  string // import path of the overlaid package, e.g. "sync/atomic"
	AST  *ast.File
	Test bool
}

type Natives struct {
	Fset  *token.FileSet
	Files []*NativeFile
	Errs  []string
}

const nativesRoot = "compiler/natives/src"

// Natives parses every overlay file.
func (c *Ctx) Natives() *Natives {
	c.natOnce.Do(func() {
		n := &Natives{Fset: token.NewFileSet()}
		root := filepath.Join(c.Repo, nativesRoot)
		var paths []string
		filepath.WalkDir(root, func(p string, d fs.DirEntry, err error) error {
			if err == nil && !d.IsDir() && strings.HasSuffix(p, ".go") {
				paths = append(paths, p)
			}
			return nil
		})
		sort.Strings(paths)
		for _, p := range paths {
			src, ok := c.Overlay[p]
			if !ok {
				b, err := os.ReadFile(p)
				if err != nil {
					n.Errs = append(n.Errs, err.Error())
					continue
				}
				src = b
			}
			f, err := parser.ParseFile(n.Fset, p, src, parser.ParseComments|parser.SkipObjectResolution)
			if err != nil {
				n.Errs = append(n.Errs, err.Error())
				continue
			}
			rel, _ := filepath.Rel(c.Repo, p)
			pkg, _ := filepath.Rel(root, filepath.Dir(p))
			n.Files = append(n.Files, &NativeFile{Rel: rel, Pkg: filepath.ToSlash(pkg), AST: f, Test: strings.HasSuffix(p, "_test.go")})
		}
		c.nat = n
	})
	return c.nat
}

// Pos renders a natives position repo-relative.
func (n *Natives) Pos(c *Ctx, p token.Pos) string {
	pos := n.Fset.Position(p)
	rel, err := filepath.Rel(c.Repo, pos.Filename)
	if err != nil {
		rel = pos.Filename
	}
	return rel + ":" + itoa(pos.Line)
}

func itoa(i int) string {
	if i == 0 {
		return "0"
	}
	var b []byte
	for i > 0 {
		b = append([]byte{byte('0' + i%10)}, b...)
		i /= 10
	}
	return string(b)
}

// PkgFiles returns the non-test files of one overlaid package.
func (n *Natives) PkgFiles(pkg string) []*NativeFile {
	var out []*NativeFile
	for _, f := range n.Files {
		if f.Pkg == pkg && !f.Test {
			out = append(out, f)
		}
	}
	return out
}

// JSRef is a js.Global.<M>("name", ...) style reference with a constant name.
type JSRef struct {
	Method string // Get, Call, Set, ...
	Name   string
	NArgs  int  // arguments after the name
	Global bool // receiver chain is exactly js.Global
	Pos    token.Pos
	Call   *ast.CallExpr
}

// JSRefs finds calls X.Get/Call/Set/...("const") in f.
func JSRefs(f *ast.File) []JSRef {
	var out []JSRef
	ast.Inspect(f, func(n ast.Node) bool {
		call, ok := n.(*ast.CallExpr)
		if !ok || len(call.Args) == 0 {
			return true
		}
		sel, ok := call.Fun.(*ast.SelectorExpr)
		if !ok {
			return true
		}
		switch sel.Sel.Name {
		case "Get", "Call", "Set", "Delete", "New":
		default:
			return true
		}
		lit, ok := call.Args[0].(*ast.BasicLit)
		if !ok || lit.Kind != token.STRING {
			return true
		}
		name := strings.Trim(lit.Value, "\"`")
		isGlobal := false
		if x, ok := sel.X.(*ast.SelectorExpr); ok && x.Sel.Name == "Global" {
			if id, ok := x.X.(*ast.Ident); ok && id.Name == "js" {
				isGlobal = true
			}
		}
		if id, ok := sel.X.(*ast.Ident); ok && id.Name == "Global" {
			isGlobal = true // inside package js itself
		}
		out = append(out, JSRef{Method: sel.Sel.Name, Name: name, NArgs: len(call.Args) - 1, Global: isGlobal, Pos: call.Pos(), Call: call})
		return true
	})
	return out
}
